"""fsx core: build step, transports, tree materialiser, explorer driver, evidence.

Everything here is standard library only.  The explorer walks finite case spaces
completely (never samples) and runs the real fselect binary on every case.
"""
import fcntl
import hashlib
import json
import multiprocessing as mp
import os
import resource
import shutil
import signal
import stat
import subprocess
import sys
import tempfile
import time

VERIF = os.path.dirname(os.path.dirname(os.path.abspath(__file__)))
REPO = os.environ.get('FSX_REPO', '/repo')
CACHE = os.path.join(VERIF, '.cache')
TARGET = os.path.join(CACHE, 'target')
SHIM_SRC = os.path.join(VERIF, 'shim', 'fsxshim.c')
SHIM_SO = os.path.join(CACHE, 'libfsxshim.so')
SCRATCH_BASE = os.environ.get('FSX_SCRATCH', '/tmp')
NPROC = int(os.environ.get('FSX_JOBS', str(min(16, os.cpu_count() or 4))))
HOOK_FEATURE = 'verif-hooks'


class MachineryError(Exception):
    pass


# ids of the findings that are `open` in /verif/known_findings.json (filled by ./check before
# the worker pool forks).  A property module may excuse a case only through one of these.
OPEN_FINDINGS = set()


def known(fid):
    return fid in OPEN_FINDINGS


# --------------------------------------------------------------------------- build

def _has_feature():
    try:
        with open(os.path.join(REPO, 'Cargo.toml')) as f:
            return HOOK_FEATURE in f.read()
    except OSError:
        return False


def build(verbose=True):
    """Build /repo's current working tree (dev profile) into the cache; returns
    (binary path, hooks_on).  Serialised by an flock so concurrent checks share it."""
    os.makedirs(CACHE, exist_ok=True)
    lock = open(os.path.join(CACHE, 'build.lock'), 'w')
    fcntl.flock(lock, fcntl.LOCK_EX)
    try:
        env = dict(os.environ)
        env['CARGO_NET_OFFLINE'] = 'true'
        env['CARGO_TARGET_DIR'] = TARGET
        env.pop('RUSTFLAGS', None)
        hooks = _has_feature()
        cmd = ['cargo', 'build', '--offline', '--quiet']
        if hooks:
            cmd += ['--features', HOOK_FEATURE]
        t0 = time.time()
        p = subprocess.run(cmd, cwd=REPO, env=env, stdout=subprocess.PIPE, stderr=subprocess.STDOUT)
        if p.returncode != 0 and hooks:
            # tree builds only without the feature?  fall back to cli-only transport
            p2 = subprocess.run(['cargo', 'build', '--offline', '--quiet'], cwd=REPO, env=env,
                                stdout=subprocess.PIPE, stderr=subprocess.STDOUT)
            if p2.returncode == 0:
                hooks = False
                p = p2
        if p.returncode != 0:
            sys.stdout.write(p.stdout.decode('utf-8', 'replace')[-4000:])
            raise MachineryError('cargo build of %s failed' % REPO)
        binary = os.path.join(TARGET, 'debug', 'fselect')
        if not os.path.exists(binary):
            raise MachineryError('no binary at %s' % binary)
        # a config.toml next to the executable would be picked up by the subject
        stray = os.path.join(TARGET, 'debug', 'config.toml')
        if os.path.exists(stray):
            os.unlink(stray)
        if verbose:
            print('[build] %s (hooks=%s) %.1fs' % (binary, hooks, time.time() - t0), flush=True)
        build_shim()
        return binary, hooks
    finally:
        fcntl.flock(lock, fcntl.LOCK_UN)
        lock.close()


def build_shim():
    if not os.path.exists(SHIM_SRC):
        return None
    if os.path.exists(SHIM_SO) and os.path.getmtime(SHIM_SO) >= os.path.getmtime(SHIM_SRC):
        return SHIM_SO
    tmp = SHIM_SO + '.tmp%d' % os.getpid()
    p = subprocess.run(['gcc', '-O1', '-shared', '-fPIC', '-o', tmp, SHIM_SRC, '-ldl'],
                       stdout=subprocess.PIPE, stderr=subprocess.STDOUT)
    if p.returncode != 0:
        sys.stdout.write(p.stdout.decode('utf-8', 'replace'))
        raise MachineryError('shim build failed')
    os.replace(tmp, SHIM_SO)
    return SHIM_SO


# --------------------------------------------------------------------------- transports

class Obs:
    __slots__ = ('rc', 'out', 'err', 'timeout')

    def __init__(self, rc, out, err, timeout=False):
        self.rc, self.out, self.err, self.timeout = rc, out, err, timeout

    @property
    def panicked(self):
        return b'panicked at' in self.err or self.rc == 101

    def rows(self, ncols=1):
        """Decode `into list` output: NUL-terminated values, ncols per row."""
        parts = self.out.split(b'\0')
        if parts and parts[-1] == b'':
            parts.pop()
        vals = [p.decode('utf-8', 'surrogateescape') for p in parts]
        if ncols == 1:
            return vals
        if len(vals) % ncols:
            return None
        return [tuple(vals[i:i + ncols]) for i in range(0, len(vals), ncols)]

    def brief(self):
        return {'rc': self.rc, 'timeout': self.timeout,
                'out': self.out[:600].decode('utf-8', 'replace'),
                'err': self.err[:600].decode('utf-8', 'replace')}


def _die_with_parent():
    # PR_SET_PDEATHSIG = 1: the kernel kills this child when the worker that started it dies
    try:
        import ctypes
        ctypes.CDLL(None).prctl(1, signal.SIGKILL)
    except Exception:
        pass


def _limits():
    resource.setrlimit(resource.RLIMIT_AS, (4 << 30, 4 << 30))
    resource.setrlimit(resource.RLIMIT_CORE, (0, 0))


def _limits_self():
    """children inherit: no core dumps, 8 GiB address space (the explorer itself stays far below)"""
    try:
        resource.setrlimit(resource.RLIMIT_CORE, (0, 0))
        soft, hard = resource.getrlimit(resource.RLIMIT_AS)
        lim = 8 << 30
        if hard == resource.RLIM_INFINITY or hard >= lim:
            resource.setrlimit(resource.RLIMIT_AS, (lim, hard))
    except (ValueError, OSError):
        pass


class Env:
    """Per-worker execution environment: private HOME, scratch dir, run counter."""

    def __init__(self, binary, hooks=False, tag='w', parent=None):
        _limits_self()
        self.binary = binary
        self.hooks = hooks
        self.base = tempfile.mkdtemp(prefix='fsx-%s-' % tag, dir=parent or SCRATCH_BASE)
        self.home = os.path.join(self.base, 'home')
        os.makedirs(os.path.join(self.home, '.config', 'fselect'))
        self.runs = 0
        self.tree_seq = 0
        self.baseenv = {
            'HOME': self.home, 'XDG_CONFIG_HOME': os.path.join(self.home, '.config'),
            'PATH': '/usr/bin:/bin', 'LC_ALL': 'C.UTF-8', 'TZ': 'UTC', 'NO_COLOR': '1',
            'RUST_BACKTRACE': '0',
        }
        self._batch = None
        # let the binary write its default config once so later runs do not race on it
        self.run(['name', 'from', self.home, 'limit', '1'], cwd=self.base)
        self.runs = 0

    def config_path(self):
        return os.path.join(self.home, '.config', 'fselect', 'config.toml')

    def set_config(self, text):
        """Replace the private config file (None = delete so defaults get rewritten)."""
        p = self.config_path()
        if text is None:
            if os.path.exists(p):
                os.unlink(p)
            self.run(['name', 'from', self.home, 'limit', '1'], cwd=self.base)
        else:
            with open(p, 'w') as f:
                f.write(text)

    def run(self, argv, cwd=None, env=None, timeout=10.0, stdin=None, preload=False,
            user=None, binary=None, nofile=None):
        """Fresh CLI process transport.  nofile: limit on open file descriptors for the subject."""
        self.runs += 1
        e = dict(self.baseenv)
        if env:
            e.update(env)
        if preload:
            e['LD_PRELOAD'] = SHIM_SO
            if user is not None:
                # the subject's loader opens the shim as that user: hand it a copy inside the scratch directory (this
                # tree may live below a directory other users cannot search, e.g. a copy under /root)
                mine = os.path.join(self.base, 'libfsxshim.so')
                if not os.path.exists(mine):
                    shutil.copyfile(SHIM_SO, mine)
                    os.chmod(mine, 0o755)
                e['LD_PRELOAD'] = mine
        cmd = [binary or self.binary] + list(argv)
        if nofile is not None:
            cmd = ['prlimit', '--nofile=%d:%d' % (nofile, nofile)] + cmd
        if user is not None:
            cmd = ['setpriv', '--reuid', str(user), '--regid', str(user), '--clear-groups'] + cmd
        try:
            # no preexec_fn: lets subprocess use vfork; the resource limits are inherited from this process
            p = subprocess.Popen(cmd, cwd=cwd or self.base, env=e,
                                 stdin=subprocess.PIPE if stdin is not None else subprocess.DEVNULL,
                                 stdout=subprocess.PIPE, stderr=subprocess.PIPE,
                                 start_new_session=True)
        except OSError as ex:
            raise MachineryError('cannot exec subject: %s' % ex)
        try:
            out, err = p.communicate(stdin, timeout=timeout)
            if preload and b'cannot be preloaded' in err:
                # the environment model was not in force: whatever the subject did is no verdict
                raise MachineryError('the LD_PRELOAD shim could not be loaded by the subject: %s' % err[:200].decode('utf-8', 'replace'))
            return Obs(p.returncode, out, err)
        except subprocess.TimeoutExpired:
            try:
                os.killpg(p.pid, signal.SIGKILL)
            except OSError:
                pass
            out, err = p.communicate()
            return Obs(-9, out, err, timeout=True)

    # ----- trees
    def newdir(self, prefix='t'):
        self.tree_seq += 1
        d = os.path.join(self.base, '%s%d' % (prefix, self.tree_seq))
        os.mkdir(d)
        return d

    def rmtree(self, d):
        rmtree(d)

    def close(self):
        if self._batch is not None:
            self._batch.close()
            self._batch = None
        rmtree(self.base)


def rmtree(d):
    def onerr(func, path, exc):
        try:
            os.chmod(os.path.dirname(path), 0o700)
            os.chmod(path, 0o700)
            func(path)
        except OSError:
            pass
    # make everything traversable first (trees may contain mode-000 directories)
    for root, dirs, files in os.walk(d):
        for x in dirs:
            p = os.path.join(root, x)
            if not os.path.islink(p):
                try:
                    os.chmod(p, 0o700)
                except OSError:
                    pass
    shutil.rmtree(d, onerror=onerr)


# --------------------------------------------------------------------------- trees
# A tree is a dict name -> node.  node:
#   {'t':'f', 'size':n | 'data':bytes/str, 'mode':0o644, 'mtime':epoch, 'uid':..,'gid':.., 'xattr':{k:bytes}, 'link':'other-relpath'}
#   {'t':'d', 'c':{...}, 'mode':.., 'mtime':..}
#   {'t':'l', 'to':'target'}          symlink
#   {'t':'p'} fifo  {'t':'s'} socket  {'t':'c'} char device (1,3)  {'t':'b'} block device (unassigned major)

def F(size=0, **kw):
    d = {'t': 'f', 'size': size}
    d.update(kw)
    return d


def D(c=None, **kw):
    d = {'t': 'd', 'c': c or {}}
    d.update(kw)
    return d


def L(to):
    return {'t': 'l', 'to': to}


def materialise(root, tree):
    """Create `tree` below the existing directory `root`.  Deterministic order; mtimes and
    modes of directories are applied bottom-up afterwards."""
    post = []
    links = []

    def mk(path, node):
        t = node['t']
        if t == 'f':
            if 'link' in node:
                links.append((path, node))
                return
            data = node.get('data')
            if data is not None:
                if isinstance(data, str):
                    data = data.encode('utf-8', 'surrogateescape')
                with open(path, 'wb') as f:
                    f.write(data)
            else:
                with open(path, 'wb') as f:
                    n = node.get('size', 0)
                    if node.get('sparse'):
                        f.truncate(n)
                    elif n:
                        f.write(b'x' * n)
        elif t == 'd':
            os.mkdir(path)
            for name in node.get('c', {}):
                mk(os.path.join(path, name) if isinstance(name, str) else os.path.join(os.fsencode(path), name),
                   node['c'][name])
        elif t == 'l':
            os.symlink(node['to'], path)
        elif t == 'p':
            os.mkfifo(path)
        elif t == 's':
            import socket
            s = socket.socket(socket.AF_UNIX)
            cwd = os.getcwd()
            try:
                os.chdir(os.path.dirname(path))
                s.bind(os.path.basename(path))
            finally:
                os.chdir(cwd)
                s.close()
        elif t == 'c':
            os.mknod(path, stat.S_IFCHR | 0o600, os.makedev(1, 3))
        elif t == 'b':
            os.mknod(path, stat.S_IFBLK | 0o600, os.makedev(240, 77))
        else:
            raise ValueError(t)
        post.append((path, node))

    for name in tree:
        mk(os.path.join(root, name) if isinstance(name, str) else os.path.join(os.fsencode(root), name), tree[name])
    for path, node in links:
        os.link(os.path.join(root, node['link']), path)
    for path, node in reversed(post):
        t = node['t']
        for k, v in (node.get('xattr') or {}).items():
            os.setxattr(path, k, v if isinstance(v, bytes) else v.encode(), follow_symlinks=False)
        if 'uid' in node or 'gid' in node:
            os.chown(path, node.get('uid', -1), node.get('gid', -1), follow_symlinks=False)
        if 'mode' in node and t != 'l':
            os.chmod(path, node['mode'])
        if 'mtime' in node:
            os.utime(path, (node.get('atime', node['mtime']), node['mtime']), follow_symlinks=False)


def walk_tree(tree, prefix=''):
    """Yield (relpath, node, level) for every entry of a tree value (level 1 = top)."""
    def rec(t, pre, lvl):
        for name, node in t.items():
            p = pre + name
            yield p, node, lvl
            if node['t'] == 'd':
                yield from rec(node.get('c', {}), p + '/', lvl + 1)
    yield from rec(tree, prefix, 1)


def tree_sig(tree):
    return hashlib.sha1(json.dumps(tree, sort_keys=True, default=repr).encode()).hexdigest()[:12]


# --------------------------------------------------------------------------- shapes

def tree_shapes(max_entries):
    """All directory-tree shapes with 1..max_entries entries up to isomorphism, leaves being
    files or empty directories.  A shape is a canonical sorted tuple of child shapes where
    a file is 'f' and a directory is a tuple."""
    from functools import lru_cache

    @lru_cache(None)
    def forests(n):
        # canonical forests (sorted tuples of nodes) with exactly n entries
        if n == 0:
            return [()]
        res = set()
        # choose the first (largest) node size k, then the rest as a forest with smaller/equal nodes
        for k in range(1, n + 1):
            for node in nodes(k):
                for rest in forests(n - k):
                    res.add(tuple(sorted((node,) + rest, key=repr)))
        return sorted(res, key=repr)

    @lru_cache(None)
    def nodes(k):
        # nodes (file or directory with content) having exactly k entries including itself
        res = []
        if k == 1:
            res.append('f')
        for sub in forests(k - 1):
            res.append(sub)          # directory containing forest `sub` (() = empty dir)
        return res

    out = []
    for n in range(1, max_entries + 1):
        out.extend(forests(n))
    return out


def shape_to_tree(shape):
    """Name the entries of a shape deterministically: files f1.., directories d1.. per level."""
    cnt = [0]

    def rec(forest):
        t = {}
        for node in forest:
            cnt[0] += 1
            if node == 'f':
                t['f%d' % cnt[0]] = F(cnt[0] % 7)
            else:
                t['d%d' % cnt[0]] = D(rec(node))
        return t
    return rec(shape)


# --------------------------------------------------------------------------- explorer driver

_W = {}


def _winit(binary, hooks, modname, parent):
    import importlib
    signal.signal(signal.SIGINT, signal.SIG_IGN)
    _W['env'] = Env(binary, hooks, parent=parent)
    _W['mod'] = importlib.import_module(modname)


def _wrun(args):
    tier, group = args
    env = _W['env']
    before = env.runs
    t0 = time.time()
    try:
        res = _W['mod'].eval_group(env, group, tier)
    except MachineryError as ex:
        return {'machinery': str(ex), 'group': repr(group)[:500]}
    except Exception:
        import traceback
        return {'machinery': traceback.format_exc(), 'group': repr(group)[:500]}
    return {'res': res, 'runs': env.runs - before, 't': time.time() - t0}


class Explorer:
    """Runs every group of a property's case space through the worker pool and folds the
    per-case outcomes into evidence.  An outcome is a dict:
        case   : json-able description (replayable through eval_group)
        status : 'ok' | 'known' | 'viol'
        cls    : violation class / known-finding id
        detail : free text or dict
        nt     : bool, case is non-trivial by the property's rule
        sig    : hashable summary of the observed behaviour (distinct_outcomes)
        trans  : number of model transitions compared (optional)
    """

    def __init__(self, modname, tier, seed, binary, hooks):
        self.modname, self.tier, self.seed = modname, tier, seed
        self.binary, self.hooks = binary, hooks

    def run(self, groups, budget_s=None):
        t0 = time.time()
        stats = {'cases': 0, 'runs': 0, 'nt': set(), 'sigs': set(), 'trans': 0,
                 'viol': {}, 'known': {}, 'samples': [], 'groups': 0, 'partial': False,
                 'layers': {}}
        ctx = mp.get_context('fork')
        rundir = tempfile.mkdtemp(prefix='fsx-run-', dir=SCRATCH_BASE)
        pool = ctx.Pool(NPROC, initializer=_winit,
                        initargs=(self.binary, self.hooks, self.modname, rundir))
        machinery = None
        try:
            it = pool.imap_unordered(_wrun, ((self.tier, g) for g in groups), chunksize=1)
            for r in it:
                if 'machinery' in r:
                    machinery = r
                    break
                stats['groups'] += 1
                stats['runs'] += r['runs']
                for o in r['res']:
                    self._fold(stats, o)
                if budget_s and time.time() - t0 > budget_s:
                    stats['partial'] = True
                    break
        finally:
            pool.terminate()
            pool.join()
            for fn in os.listdir(rundir):
                if fn.startswith('pid.'):
                    try:
                        os.killpg(int(fn[4:]), signal.SIGKILL)
                    except (OSError, ValueError):
                        pass
            rmtree(rundir)
        if machinery:
            raise MachineryError(machinery['machinery'] + '\n' + machinery['group'])
        stats['wall'] = time.time() - t0
        return stats

    def _fold(self, stats, o):
        if 'agg' in o:
            # a group may report its passing cases in aggregate (cases are distinct by construction)
            a = o['agg']
            stats['cases'] += a['cases']
            stats['ntcount'] = stats.get('ntcount', 0) + a['nt']
            stats['sigs'].update(a.get('sigs', ()))
            stats['trans'] += a.get('trans', a['cases'])
            if a.get('layer') is not None:
                stats['layers'][a['layer']] = stats['layers'].get(a['layer'], 0) + a['cases']
            if len(stats['samples']) < 12 and a.get('samples'):
                stats['samples'].extend(a['samples'][:2])
            return
        stats['cases'] += 1
        key = json.dumps(o['case'], sort_keys=True, default=repr)
        h = hashlib.sha1(key.encode()).hexdigest()[:16]
        if o.get('nt', True):
            stats['nt'].add(h)
        stats['sigs'].add(o.get('sig'))
        stats['trans'] += o.get('trans', 1)
        layer = o.get('layer')
        if layer is not None:
            stats['layers'][layer] = stats['layers'].get(layer, 0) + 1
        n = stats['cases']
        if n in (1, 2) or (n & (n - 1)) == 0 and len(stats['samples']) < 12:
            stats['samples'].append({'case': o['case'], 'status': o['status'], 'sig': str(o.get('sig'))[:200]})
        if o['status'] == 'viol':
            stats['viol'].setdefault(o['cls'], []).append(o)
        elif o['status'] == 'known':
            stats['known'].setdefault(o['cls'], []).append(o)


# --------------------------------------------------------------------------- chroot jail

_JAIL_LIBS = None


def _jail_libs(binary):
    global _JAIL_LIBS
    if _JAIL_LIBS is None:
        out = subprocess.run(['ldd', binary], stdout=subprocess.PIPE).stdout.decode()
        libs = []
        for line in out.splitlines():
            parts = line.split()
            if '=>' in parts and len(parts) >= 3 and parts[2].startswith('/'):
                libs.append((os.path.basename(parts[0]), os.path.realpath(parts[2])))
            elif parts and parts[0].startswith('/'):
                libs.append(('ld.so', os.path.realpath(parts[0])))
        _JAIL_LIBS = libs
    return _JAIL_LIBS


def scan_tree(root):
    """Tree value of what is on disk below root (lstat; links not followed)."""
    t = {}
    for name in sorted(os.listdir(root)):
        p = os.path.join(root, name)
        st = os.lstat(p)
        if stat.S_ISDIR(st.st_mode):
            t[name] = {'t': 'd', 'c': scan_tree(p)}
        elif stat.S_ISLNK(st.st_mode):
            t[name] = {'t': 'l', 'to': os.readlink(p)}
        else:
            t[name] = {'t': 'f', 'size': st.st_size}
    return t


def make_jail(env, troot):
    """Turn the directory troot into a chroot jail in which `/` is a small generated tree:
    adds /L with the subject, its loader and libraries and a HOME, runs the subject once so
    that its config file exists, and returns the tree value of the whole jail."""
    ldir = os.path.join(troot, 'L')
    os.mkdir(ldir)
    shutil.copy2(env.binary, os.path.join(ldir, 'fselect')) if os.stat(env.binary).st_dev != os.stat(ldir).st_dev \
        else os.link(env.binary, os.path.join(ldir, 'fselect'))
    for name, src in _jail_libs(env.binary):
        shutil.copy2(src, os.path.join(ldir, name))
    os.makedirs(os.path.join(ldir, 'home', '.config', 'fselect'))
    run_jailed(env, troot, ['name', 'from', '/L/home', 'limit', '1'])
    return scan_tree(troot)


def run_jailed(env, troot, argv, timeout=10.0, cwd='/', streams=None, extra_env=None):
    """streams: {'stdout'|'stderr': 'full'|'epipe'|'closed'} - the stream is /dev/full (every write fails), a pipe without reader, or not
    open at all (the Rust runtime then opens /dev/null for it and aborts where that does not exist: not used inside the jail)"""
    env.runs += 1
    e = {'HOME': '/L/home', 'XDG_CONFIG_HOME': '/L/home/.config', 'LC_ALL': 'C.UTF-8', 'TZ': 'UTC',
         'NO_COLOR': '1', 'RUST_BACKTRACE': '0', 'PATH': '/L'}
    if extra_env:
        e.update(extra_env)
    cmd = ['/L/ld.so', '--library-path', '/L', '/L/fselect'] + list(argv)
    streams = streams or {}

    def pre():
        _limits()
        os.chroot(troot)
        if cwd == '@gone':        # a working directory that no longer exists
            g = '/.gone-%d' % os.getpid()
            os.mkdir(g)
            os.chdir(g)
            os.rmdir(g)
        else:
            os.chdir(cwd)
        for fd, name in ((1, 'stdout'), (2, 'stderr')):
            if streams.get(name) == 'closed':
                os.close(fd)
    full = open('/dev/full', 'wb') if 'full' in streams.values() else None
    broken = None
    if 'epipe' in streams.values():       # a pipe whose reader has gone: every write fails with EPIPE
        r_, w_ = os.pipe()
        os.close(r_)
        broken = os.fdopen(w_, 'wb')
    fds = {name: (full if streams.get(name) == 'full' else broken if streams.get(name) == 'epipe' else subprocess.PIPE) for name in ('stdout', 'stderr')}
    p = subprocess.Popen(cmd, env=e, stdin=subprocess.DEVNULL, stdout=fds['stdout'],
                         stderr=fds['stderr'], preexec_fn=pre, start_new_session=True)
    for f_ in (full, broken):
        if f_:
            f_.close()
    try:
        out, err = p.communicate(timeout=timeout)
        return Obs(p.returncode, out or b'', err or b'')
    except subprocess.TimeoutExpired:
        try:
            os.killpg(p.pid, signal.SIGKILL)
        except OSError:
            pass
        out, err = p.communicate()
        return Obs(-9, out or b'', err or b'', timeout=True)


# --------------------------------------------------------------------------- batch transport (hook)

class Batch:
    """The subject started once with FSELECT_VERIF_BATCH (cargo feature verif-hooks): every
    record is run through the crate's own exec_search.  A record that ends the process
    (error_exit -> status 2) or hangs is observed as such and the server is restarted."""

    def __init__(self, env, cwd, extra_env=None, jail=None):
        self.env, self.cwd, self.extra, self.jail = env, cwd, extra_env or {}, jail
        self.p = None
        self.nonce = 'n%d' % os.getpid()
        self.mo = ('\n@@FSX:%s:OUT:' % self.nonce).encode()
        self.me = ('\n@@FSX:%s:ERR@@\n' % self.nonce).encode()

    def _start(self):
        e = dict(self.env.baseenv)
        e.update(self.extra)
        e['FSELECT_VERIF_BATCH'] = self.nonce
        if self.jail:
            jail, cwd = self.jail, self.cwd
            e.update({'HOME': '/L/home', 'XDG_CONFIG_HOME': '/L/home/.config', 'PATH': '/L'})

            def pre():
                _limits()
                _die_with_parent()
                os.chroot(jail)
                os.chdir(cwd)
            self.p = subprocess.Popen(['/L/ld.so', '--library-path', '/L', '/L/fselect'], env=e, stdin=subprocess.PIPE,
                                      stdout=subprocess.PIPE, stderr=subprocess.PIPE, preexec_fn=pre,
                                      start_new_session=True, bufsize=0)
        else:
            def pre2():
                _limits()
                _die_with_parent()
            self.p = subprocess.Popen([self.env.binary], cwd=self.cwd, env=e, stdin=subprocess.PIPE,
                                      stdout=subprocess.PIPE, stderr=subprocess.PIPE, preexec_fn=pre2,
                                      start_new_session=True, bufsize=0)
        # backup: the explorer kills every recorded server when the pool is torn down
        try:
            with open(os.path.join(os.path.dirname(self.env.base), 'pid.%d' % self.p.pid), 'w') as f:
                f.write(str(self.p.pid))
        except OSError:
            pass
        for f in (self.p.stdout, self.p.stderr):
            os.set_blocking(f.fileno(), False)

    def close(self):
        if self.p is not None:
            try:
                os.killpg(self.p.pid, signal.SIGKILL)
            except OSError:
                pass
            self.p.wait()
            for f in (self.p.stdin, self.p.stdout, self.p.stderr):
                try:
                    f.close()
                except OSError:
                    pass
            self.p = None

    def run(self, argv, timeout=5.0):
        import select
        self.env.runs += 1
        if self.p is None:
            self._start()
        rec = b'\x1f'.join(a.encode('utf-8', 'surrogateescape') for a in argv) + b'\x1e'
        try:
            self.p.stdin.write(rec)
            self.p.stdin.flush()
        except (BrokenPipeError, OSError):
            self.close()
            raise MachineryError('batch server died before accepting a record')
        out, err = b'', b''
        fo, fe = self.p.stdout.fileno(), self.p.stderr.fileno()
        open_fds = {fo, fe}
        done_o = done_e = False
        status = None
        deadline = time.time() + timeout
        while not (done_o and done_e):
            left = deadline - time.time()
            if left <= 0:
                self.close()
                return Obs(-9, out, err, timeout=True)
            if not open_fds:
                break
            r, _, _ = select.select(list(open_fds), [], [], left)
            for fd in r:
                try:
                    chunk = os.read(fd, 65536)
                except BlockingIOError:
                    continue
                if not chunk:
                    open_fds.discard(fd)
                    continue
                if fd == fo:
                    out += chunk
                else:
                    err += chunk
            if not done_o:
                i = out.find(self.mo)
                if i >= 0:
                    j = out.find(b'@@\n', i + len(self.mo))
                    if j >= 0:
                        status = out[i + len(self.mo):j].decode()
                        out = out[:i]
                        done_o = True
            if not done_e:
                i = err.find(self.me)
                if i >= 0:
                    err = err[:i]
                    done_e = True
        if done_o and done_e:
            if status == 'PANIC':
                return Obs(101, out, err)
            return Obs(int(status), out, err)
        # the process ended inside the record (error_exit or abort)
        rc = self.p.wait()
        self.close()
        return Obs(rc, out, err)
