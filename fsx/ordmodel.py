"""Shared model for ORDER BY / LIMIT checks (C05, C06, C19): typed sort keys from lstat."""
import os
import stat
import time

from fsx.core import D, F

# key name -> (type, function(entry) -> comparable)
KEYS = {
    'name': ('str', lambda e: e['name']),
    'ext': ('str', lambda e: e['ext']),
    'path': ('str', lambda e: e['path']),
    'size': ('num', lambda e: e['size']),
    'hardlinks': ('num', lambda e: e['nlink']),
    'uid': ('num', lambda e: e['uid']),
    'modified': ('date', lambda e: e['mtime']),
    'length(name)': ('num', lambda e: len(e['name'])),
    'size * 2': ('num', lambda e: e['size'] * 2),
    'size + hardlinks': ('num', lambda e: e['size'] + e['nlink']),
    'size - 50': ('num', lambda e: e['size'] - 50),
    'day(modified)': ('num', lambda e: time.gmtime(e['mtime']).tm_mday),
    'year(modified)': ('num', lambda e: time.gmtime(e['mtime']).tm_year),
    'is_dir': ('str', lambda e: 'true' if e['isdir'] else 'false'),
    'mode': ('str', lambda e: stat.filemode(e['mode'])),
    'upper(name)': ('str', lambda e: e['name'].upper()),
    'dow(modified)': ('num', lambda e: (time.gmtime(e['mtime']).tm_wday + 1) % 7 + 1),
    'month(modified)': ('num', lambda e: time.gmtime(e['mtime']).tm_mon),
    'hex(size)': ('str', lambda e: '%x' % e['size']),
    'concat(size, name)': ('str', lambda e: '%d%s' % (e['size'], e['name'])),
    '-size': ('num', lambda e: -e['size']),                     # a key that begins with a sign or a bracket
    '(size + 1) * 2': ('num', lambda e: (e['size'] + 1) * 2),
    '1000 - size': ('num', lambda e: 1000 - e['size']),          # a number on the left: an expression, not a position
    '2 - size': ('num', lambda e: 2 - e['size']),
    '1 + size': ('num', lambda e: 1 + e['size']),
}
POSITIONAL_ONLY = set()


def ord_tree():
    """ties, multi-digit sizes (string order != numeric order), equal names in different
    directories, hard-link counts 1,2,3,11, mtimes one second apart across a year end."""
    y = 1577836800  # 2020-01-01 00:00:00 UTC
    t = {
        'a.txt': F(5, mtime=y - 1), 'b.txt': F(9, mtime=y), 'c.rs': F(10, mtime=y + 1, mode=0o600), 'dd.rs': F(100, mtime=y - 1),
        'e': F(1000, mtime=y + 86400, uid=1000, mode=0o755), 'f10': F(10, mtime=y + 2, uid=100), 'g': F(9, mtime=y, mode=0o4711),
        'sub': D({'a.txt': F(5, mtime=y - 2), 'b.txt': F(100, mtime=y + 1, uid=9), 'zz': F(0, mtime=y)}, mtime=y + 5),
        'sub2': D({'a.txt': F(1000, mtime=y - 1), 'k.md': F(9, mtime=y + 3, uid=100)}, mtime=y - 86400),
        'h1': F(7, mtime=y), 'h2': {'t': 'f', 'link': 'h1'}, 'h3': {'t': 'f', 'link': 'h1'},
    }
    # keys beyond 2^31 that differ by one (a float tolerance would tie them), and the hour repeated when DST ends in Berlin
    t['big'] = D({'g0': F(3 * 10 ** 9, sparse=True, mtime=1635640200), 'g1': F(3 * 10 ** 9 + 1, sparse=True, mtime=1635643800),
                  'g2': F(3 * 10 ** 9 + 2, sparse=True, mtime=1635647400), 'g3': F(3 * 10 ** 9 - 1, sparse=True, mtime=1635636600)}, mtime=y + 11)
    # a file with 11 hard links (its names live in their own directory)
    t['many'] = D({'m0': F(3, mtime=y + 7)}, mtime=y + 9)
    for i in range(1, 11):
        t['many']['c']['m%d' % i] = {'t': 'f', 'link': 'many/m0'}
    return t


def entries(root, prefix='.'):
    res = []
    for dp, dns, fns in os.walk(root):
        for n in dns + fns:
            p = os.path.join(dp, n)
            st = os.lstat(p)
            rel = os.path.relpath(p, root)
            res.append({'name': n, 'path': prefix + '/' + rel, 'ext': n.rsplit('.', 1)[1] if '.' in n[1:] else '',
                        'size': st.st_size, 'nlink': st.st_nlink, 'uid': st.st_uid, 'mtime': int(st.st_mtime),
                        'isdir': stat.S_ISDIR(st.st_mode), 'mode': st.st_mode})
    return res


# keys whose column stands only in a later argument of a function (the first argument is a constant); not part of the C05 key lists
EXTRA_KEYS = {
    "concat_ws('-', ext, name)": ('str', lambda e: e['ext'] + '-' + e['name']),
    'least(99999999, size)': ('num', lambda e: e['size']),
    'greatest(0, size)': ('num', lambda e: e['size']),
    "concat('k', name)": ('str', lambda e: 'k' + e['name']),
}


def keyvec(e, keys):
    return tuple((KEYS.get(k) or EXTRA_KEYS[k])[1](e) for k in keys)


def sorted_ok(vecs, dirs):
    """vecs: key vectors in output order; dirs: list of bool (True = asc).  Returns index of
    the first adjacent pair out of order, or None."""
    for i in range(len(vecs) - 1):
        a, b = vecs[i], vecs[i + 1]
        for x, y, asc in zip(a, b, dirs):
            if x == y:
                continue
            if (x < y) != asc:
                return i
            break
    return None


def full_sort(ents, keys, dirs):
    import functools

    def cmp(a, b):
        for k, asc in zip(keys, dirs):
            x, y = (KEYS.get(k) or EXTRA_KEYS[k])[1](a), (KEYS.get(k) or EXTRA_KEYS[k])[1](b)
            if x != y:
                return (-1 if x < y else 1) * (1 if asc else -1)
        return 0
    return sorted(ents, key=functools.cmp_to_key(cmp))
