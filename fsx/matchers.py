"""Reference matchers written from the documentation (C02, C12): glob, LIKE, exact, regex."""
import re


def glob_match(pattern, subject):
    """`*` any run of characters, `?` exactly one; every other character matches only itself;
    whole string, case-insensitive."""
    rx = ''.join('.*' if c == '*' else '.' if c == '?' else re.escape(c) for c in pattern)
    return re.fullmatch(rx, subject, re.I | re.S) is not None


def like_match(pattern, subject):
    rx = ''.join('.*' if c == '%' else '.' if c == '_' else re.escape(c) for c in pattern)
    return re.fullmatch(rx, subject, re.I | re.S) is not None


def has_glob(p):
    return '*' in p or '?' in p


def text_eq(pattern, subject):
    """`=` on a text column: pattern match when the literal contains a wildcard, else equality."""
    return glob_match(pattern, subject) if has_glob(pattern) else pattern == subject


def regex_search(pattern, subject):
    return re.search(pattern, subject) is not None


UNITS = {'': 1, 'b': 1, 'k': 1024, 'kb': 1000, 'kib': 1024, 'm': 1024 ** 2, 'mb': 1000 ** 2, 'mib': 1024 ** 2,
         'g': 1024 ** 3, 'gb': 1000 ** 3, 'gib': 1024 ** 3, 't': 1024 ** 4, 'tb': 1000 ** 4, 'tib': 1024 ** 4}


def parse_size(lit):
    """number x multiplier, unit in any letter case, fractional number allowed -> integer bytes
    (fractions of a byte truncated), or None."""
    m = re.fullmatch(r'(-?(?:\d+\.?\d*|\.\d+))\s*([a-zA-Z]*)', lit.strip())
    if not m or m.group(2).lower() not in UNITS:
        return None
    from fractions import Fraction
    v = Fraction(m.group(1)) * UNITS[m.group(2).lower()]
    return int(v) if v >= 0 else -int(-v)
