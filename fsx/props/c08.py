"""C08 GROUP BY partitions the matching entries; per-group aggregates are exact."""
import itertools
import os
import stat

from fsx import core
from fsx.core import D, F
from fsx.props.c07 import expected, close

ID = 'C08'
LEVEL = 'exploration'
RULE = ('grouping key lists of length 1..2 over {ext, dir, is_dir, mode, uid, length(name)} (6 + 30 ordered pairs; thorough adds the 120 ordered triples) x '
        'aggregate lists {count; sum; count+sum+min+max; avg; arithmetic over aggregates} x key-first/aggregate-first select order x WHERE on/off x '
        'ORDER BY in {none, key asc/desc, aggregate asc/desc, positional, two-key lists} x WHERE incl. one that matches nothing x 3 trees with 1..5 distinct key values incl. '
        'the empty extension; non-trivial = at least two groups')
ASSUMPTIONS = ['group rows are compared as a set unless ORDER BY is given; ties under ORDER BY may come in any order',
               'expected per-group aggregates come from lstat of the generated tree (exact integers / fractions); the '
               'differential `where key = value` law is checked for ext, uid, is_dir and length(name) keys']
BUDGET = {'quick': 50, 'thorough': 900}

KEYS = ['ext', 'dir', 'is_dir', 'mode', 'uid', 'length(name)']
AGGS = [['count(*)'], ['sum(size)'], ['count(*)', 'sum(size)', 'min(size)', 'max(size)'], ['avg(size)'],
        ['sum(size) / count(*)'], ['max(size) - min(size)', '10 * count(*)']]
TREES = {
    'one': {'a.txt': F(3), 'b.txt': F(5)},
    'small': {'a.txt': F(6, mode=0o600), 'b': F(3), 'noext': F(0, uid=1000, gid=1000),
              'd': D({'c.rs': F(11, mode=0o755), 'x.txt': F(0)})},
    'rich': {'a.txt': F(1), 'bb.txt': F(20, uid=1000), 'c.rs': F(300, mode=0o600), 'dd.rs': F(4, uid=65534, mode=0o600),
             'e.TXT': F(5), 'f': F(6), 'gg': F(70, mode=0o755),
             'p': D({'a.txt': F(8), 'q.rs': F(9, uid=1000), 'r': D({'a.txt': F(100), 'zz.md': F(11), 'y': F(12, mode=0o755)})}),
             's': D({'t.md': F(2), 'uu.md': F(2, uid=1000, mode=0o640)}, mode=0o700),
             # key values that contain the characters a composite key might be joined with
             'x,b': D({'f.c': F(3), 'g': F(1)}), 'x': D({'g.b,c': F(4), 'h.c': F(5), 'i|j.k': F(6)}), 'x|i': D({'j.k': F(7)})},
}
# two entries, adjacent in every arrival order, whose key values differ but concatenate to the same text under one key order
ADJ = {
    'adj-dir-ext': {'lib': D({'x.c': F(3)}), 'libc': D({'README': F(5)})},
    'adj-len-ext': {'p.1x': F(1), 'q' * 39 + '.x': F(11)},
    'adj-uid-ext': {'f.0a': F(2, uid=1), 'g.a': F(7, uid=10)},
    'adj-ext-uid': {'h.a1': F(2, uid=0), 'i.a': F(7, uid=10)},
}
# ... and with every character a careless join might put between two key values
for _i, _sep in enumerate(' ,|;:\t-_=\x1f'):
    ADJ['adj-sep-%d' % _i] = {'draft': D({'letter.old%scopy' % _sep: F(3)}), 'draft%sold' % _sep: D({'x.copy': F(5)}), 'other': D({'y.copy': F(7)})}
# two keys whose values are the same text in one group (ext = length(name), ext = uid), and two groups whose values are each other's swapped
ADJ['twin-keys'] = {'log.5': F(1), 'syslog.8': F(2), 'abc.7': F(3), 'a.b.c.5': F(4), 'f.1': F(5, uid=1), 'gg.10': F(6, uid=10), 'hh.0': F(7), 'x.false': D({}), 'y.true': F(8),
                    'sub.3': D({'sub.3': F(9), 'k.5': F(10)})}
TREES.update(ADJ)
# key values that look like numbers are still text (ext), and sort keys that are not selected
TREES['numext'] = {'a.9': F(3), 'b.10': F(5), 'c.1a': F(7), 'd.a': F(1), 'e.010': F(9), 'f.9': F(11), 'g.10': F(2), 'h': F(4), 'i.-1': F(6), 'j.1e1': F(8)}
# a bare column that is neither a key nor aggregated may show anything, but must not disturb the aggregates next to it
BARE = [['size', 'min(size)', 'max(size)'], ['size', 'count(*)', 'sum(size)'], ['name', 'size', 'max(size)', 'min(size)', 'avg(size)']]
WHERES = [(None, lambda e: True), ('size gt 2', lambda e: e['size'] > 2), ('size gt 99999999', lambda e: False)]


def bounds(tier):
    return {'key_lists': 36 + (120 if tier == 'thorough' else 0), 'agg_lists': len(AGGS), 'trees': list(TREES)}


def keylists(tier):
    for k in KEYS:
        yield [k]
    pairs = list(itertools.permutations(KEYS, 2))
    for p in pairs:
        yield list(p)
    if tier == 'thorough':
        for p in itertools.permutations(KEYS, 3):
            yield list(p)


def orders(keys, aggs, ncols, aggfirst):
    yield None
    for d in ('', ' desc'):
        yield keys[0] + d
        yield aggs[0] + d
    # positional: the first aggregate column
    pos = 1 if aggfirst else len(keys) + 1
    yield '%d desc' % pos
    # two sort keys: aggregate first (ties among groups are resolved by the key) and key first
    yield aggs[0] + ' desc, ' + keys[0]
    yield aggs[0] + ', ' + keys[0] + ' desc'
    yield keys[0] + ' desc, ' + aggs[0]


def groups(tier, seed):
    yield {'kind': 'group-sort', 'tree': None, 'keys': [], 'cases': []}
    for tname in ADJ:
        for kl in keylists(tier):
            if len(kl) == 2:
                yield {'tree': tname, 'keys': kl, 'cases': [{'aggs': AGGS[ai], 'where': 0, 'aggfirst': False, 'order': ob, 'rd': rd}
                                                            for ai in (0, 2) for ob in (None, kl[0]) for rd in ('sorted', 'rev')]}
    # sort keys that are not in the select list: a grouping key, an aggregate
    for tname in ('numext', 'small', 'rich'):
        for k in KEYS:
            yield {'tree': tname, 'keys': [k], 'cases': [{'hidden': h, 'desc': d, 'where': w} for h in ('key', 'sum', 'count') for d in (False, True) for w in (0, 1)]}
    # a negated numeric key column keeps its sign in the group row
    for tname in ('small', 'rich'):
        for k in ('uid', 'length(name)'):
            yield {'tree': tname, 'keys': [k], 'cases': [{'hidden': 'neg', 'desc': d, 'where': w} for d in (False, True) for w in (0, 1)]}
    for tname in ('small', 'rich'):
        for kl in keylists('quick'):
            if len(kl) == 1 or tier == 'thorough':
                yield {'tree': tname, 'keys': kl, 'cases': [{'aggs': b, 'where': wi, 'aggfirst': False, 'order': ob, 'bare': nb}
                                                            for b, nb in ((BARE[0], 1), (BARE[1], 1), (BARE[2], 2)) for wi in (0, 1)
                                                            for ob in (None, kl[0] + ' desc')]}
    for tname in TREES:
        if tname in ADJ:
            continue
        for kl in keylists(tier):
            cases = []
            for ai, aggs in enumerate(AGGS):
                for wi in range(len(WHERES)):
                    for aggfirst in (False, True):
                        for oi, ob in enumerate(orders(kl, aggs, 0, aggfirst)):
                            if tier == 'quick' and aggfirst and oi not in (0, 5, 6):
                                continue
                            cases.append({'aggs': aggs, 'where': wi, 'aggfirst': aggfirst, 'order': ob})
            yield {'tree': tname, 'keys': kl, 'cases': cases}


def eval_group_sort(env, group):
    """group rows sorted by keys that are large whole numbers, formatted sizes, or look-alikes of a selected column"""
    import subprocess
    import tempfile
    outs = []
    if not (os.path.isdir('/dev/shm') and os.access('/dev/shm', os.W_OK)):
        return [{'case': {'kind': 'group-sort'}, 'status': 'ok', 'nt': False, 'layer': 'group-sort', 'sig': ('no-tmpfs',)}]
    root = tempfile.mkdtemp(prefix='fsx-c08-', dir='/dev/shm')
    try:
        sizes = {'x.ea': 2 ** 53 + 1, 'y.eb': 2 ** 53, 'z.ec': 7, 'w.ed': 2048, 'v.ee': 3, 'u.ef': 2 ** 53 + 2, 'X.eg': 1500, 't.ea': 0}
        for i, (n, v) in enumerate(sizes.items()):
            d = os.path.join(root, 'd%d' % (i % 3))
            os.makedirs(d, exist_ok=True)
            with open(os.path.join(d, n), 'wb') as fh:
                fh.truncate(v)
        if os.lstat(os.path.join(root, 'd0', 'x.ea')).st_size != 2 ** 53 + 1:
            return [{'case': {'kind': 'group-sort'}, 'status': 'ok', 'nt': False, 'layer': 'group-sort', 'sig': ('no-big-files',)}]
        bysum = {}
        for n, v in sizes.items():
            bysum[n.rsplit('.', 1)[1]] = bysum.get(n.rsplit('.', 1)[1], 0) + v
        cases = []
        for desc in (False, True):
            for lim in (0, 1, 3):
                tail = (' desc' if desc else '') + (' limit %d' % lim if lim else '')
                order = sorted(bysum, key=lambda e: (bysum[e], e), reverse=desc)
                cases.append(('ext, sum(size) from . where is_file = true group by ext order by sum(size)%s, ext%s into list' % (' desc' if desc else '', tail.replace(' desc', '')),
                              [(e, str(bysum[e])) for e in order][:lim or None]))
                cases.append(('ext, sum(size) from . where is_file = true group by ext order by 2%s, 1%s into list' % (' desc' if desc else '', tail.replace(' desc', '')),
                              [(e, str(bysum[e])) for e in order][:lim or None]))
                byname = sorted(sizes, key=lambda n: (sizes[n], n), reverse=desc)
                cases.append(('name, size, fsize, max(size) from . where is_file = true and size < 1000000 group by name, size, fsize order by fsize%s, name%s into list' % (' desc' if desc else '', tail.replace(' desc', '')),
                              None if True else byname))
                # a selected column that differs from the key in the letter case of a literal only
                want = sorted(sizes, key=lambda n: n.replace('X', 'A'), reverse=desc)
                cases.append(("name, replace(name, 'x', 'A'), count(*) from . where is_file = true group by name order by replace(name, 'X', 'A')%s into list" % tail,
                              [(n, n.replace('x', 'A'), '1') for n in want][:lim or None]))
        for q, want in cases:
            o = env.run([q], cwd=root, timeout=20.0)
            r = {'case': {'kind': 'group-sort', 'query': q}, 'layer': 'group-sort', 'nt': True, 'trans': len(sizes)}
            ncol = 4 if ', fsize, max(size) from' in q else 3 if 'count(*)' in q else 2
            rows = o.rows(ncol)
            if o.timeout or o.rc != 0 or o.err or rows is None:
                r.update(status='viol', cls='group-sort:status', detail=dict(o.brief(), query=q), sig=('err',))
            elif want is None:
                # ordered by the formatted size: the sizes themselves are in order (ties by name)
                vals = [int(x[1]) for x in rows]
                desc = ' desc' in q
                # (rows whose formatted sizes are the same text tie on this key)
                ok = all(ra[2] == rb[2] or ((a >= b) if desc else (a <= b)) for (a, ra), (b, rb) in zip(zip(vals, rows), zip(vals[1:], rows[1:])))
                if not ok:
                    r.update(status='viol', cls='group-sort:formatted-size-key', detail={'query': q, 'rows': rows}, sig=('fsize',))
                else:
                    r.update(status='ok', sig=tuple(vals))
            elif [tuple(x) for x in rows] != want:
                r.update(status='viol', cls='group-sort:rows', detail={'query': q, 'got': rows[:8], 'expected': want[:8]}, sig=('rows', q[:30]))
            else:
                r.update(status='ok', sig=tuple(x[0] for x in rows))
            outs.append(r)
    finally:
        subprocess.run(['rm', '-rf', root])
    return outs


def single(case):
    if case.get('kind') == 'group-sort':
        return {'kind': 'group-sort', 'tree': None, 'keys': [], 'cases': []}
    return {'tree': case['tree'], 'keys': case['keys'],
            'cases': [{k: case[k] for k in ('aggs', 'where', 'aggfirst', 'order', 'bare', 'hidden', 'desc', 'rd') if k in case}]}


def entries(root):
    res = []
    for dp, dns, fns in os.walk(root):
        for n in dns + fns:
            p = os.path.join(dp, n)
            st = os.lstat(p)
            rel = os.path.relpath(dp, root)
            ext = n.rsplit('.', 1)[1] if '.' in n[1:] else ''
            res.append({'name': n, 'size': st.st_size, 'ext': ext, 'dir': '.' if rel == '.' else './' + rel,
                        'is_dir': 'true' if stat.S_ISDIR(st.st_mode) else 'false', 'mode': stat.filemode(st.st_mode),
                        'uid': str(st.st_uid), 'length(name)': str(len(n))})
    return res


NUMERIC_KEYS = {'uid', 'length(name)'}


def sort_key(col, v):
    if col in NUMERIC_KEYS or '(' in col and col not in KEYS:
        return (0, float(v))
    return (1, v)


def hidden_order(env, root, group, c, keys, ents, wtext):
    key = keys[0]
    part = {}
    for e in ents:
        part.setdefault(e[key], []).append(e['size'])
    w = (' where ' + wtext) if wtext else ''
    d = ' desc' if c['desc'] else ''
    if c['hidden'] == 'neg':
        q = '-%s, %s, count(*) from .%s group by %s order by %s%s into list' % (key, key, w, key, key, d)
        o = env.run([q], cwd=root)
        rows = o.rows(3)
        res = {'case': dict(c, tree=group['tree'], keys=keys, query=q), 'nt': len(part) >= 2, 'layer': 'negated-key', 'trans': len(part) + 1}
        if o.rc != 0 or o.err or rows is None or len(rows) != len(part) or any(float(r[0]) != -float(r[1]) or str(len(part[r[1]])) != r[2] for r in rows):
            res.update(status='viol', cls='negated-key-column', detail=dict(o.brief(), query=q), sig=('viol', 'neg'))
        else:
            res.update(status='ok', sig=tuple(rows))
        return res
    if c['hidden'] == 'key':
        q = 'count(*), sum(size) from .%s group by %s order by %s%s into list' % (w, key, key, d)
        order = sorted(part, key=lambda v: sort_key(key, v), reverse=c['desc'])
        want = [[(str(len(part[v])), str(sum(part[v])))] for v in order]
        ncols = 2
    else:
        agg, f = ('sum(size)', sum) if c['hidden'] == 'sum' else ('count(*)', len)
        other = 'count(*)' if c['hidden'] == 'sum' else 'sum(size)'
        g = len if c['hidden'] == 'sum' else sum
        q = '%s, %s from .%s group by %s order by %s%s into list' % (key, other, w, key, agg, d)
        # groups with equal sort values may come in any order: compare the sequence of sort values and the row set
        want = None
        ncols = 2
    o = env.run([q], cwd=root)
    rows = o.rows(ncols)
    res = {'case': dict(c, tree=group['tree'], keys=keys, query=q), 'nt': len(part) >= 2, 'layer': 'hidden-sort-key', 'trans': len(part) + 1}
    bad = None
    if o.timeout or o.rc != 0 or o.err or rows is None or len(rows) != len(part):
        bad = ('status-or-shape', o.brief())
    elif c['hidden'] == 'key':
        if [[tuple(r)] for r in rows] != want:
            bad = ('group-order-by-unselected-key', {'got': rows[:8], 'expected': [x[0] for x in want][:8]})
    else:
        vals = {v: (f(part[v]), g(part[v])) for v in part}
        if sorted(rows) != sorted((v, str(vals[v][1])) for v in part):
            bad = ('group-aggregate-wrong', {'got': rows[:8]})
        else:
            seq = [vals[r[0]][0] for r in rows]
            if seq != sorted(seq, reverse=c['desc']):
                bad = ('group-order-by-unselected-aggregate', {'got': rows[:8], 'sort_values': seq[:8]})
    if bad:
        res.update(status='viol', cls=bad[0], detail=dict(bad[1], query=q), sig=('viol', bad[0]))
    else:
        res.update(status='ok', sig=tuple(rows))
    return res


def eval_group(env, group, tier):
    if group.get('kind') == 'group-sort':
        return eval_group_sort(env, group)
    root = env.newdir('c8')
    core.materialise(root, TREES[group['tree']])
    keys = group['keys']
    outs = []
    try:
        allents = entries(root)
        for c in group['cases']:
            wtext, pred = WHERES[c['where']]
            ents = [e for e in allents if pred(e)]
            if 'hidden' in c:
                outs.append(hidden_order(env, root, group, c, keys, ents, wtext))
                continue
            aggs = c['aggs']
            cols = (aggs + keys) if c['aggfirst'] else (keys + aggs)
            aggs = aggs[c.get('bare', 0):]      # leading bare columns are selected but not judged
            w = (' where ' + wtext) if wtext else ''
            q = ', '.join(cols) + ' from .' + w + ' group by ' + ', '.join(keys)
            if c['order']:
                q += ' order by ' + c['order']
            q += ' into list'
            o = env.run([q], cwd=root, preload=True, env={'FSX_READDIR': c['rd']}) if c.get('rd') else env.run([q], cwd=root)
            case = dict(c, tree=group['tree'], keys=keys, query=q)
            # model partition
            part = {}
            for e in ents:
                part.setdefault(tuple(e[k] for k in keys), []).append(e['size'])
            res = {'case': case, 'nt': len(part) >= 2, 'layer': 'keys=%d' % len(keys), 'trans': len(part) + 1}

            def viol(cls, detail):
                res.update(status='viol', cls=cls, detail=dict(detail, query=q), sig=('viol', cls))
                outs.append(res)
            rows = o.rows(len(cols))
            if o.timeout or o.rc != 0 or o.err or rows is None:
                viol('status-or-shape', o.brief())
                continue
            if len(cols) == 1:
                rows = [(r,) for r in rows]
            ki = [cols.index(k) for k in keys]
            got = {}
            dupe = False
            for r in rows:
                kv = tuple(r[i] for i in ki)
                if kv in got:
                    dupe = True
                got[kv] = r
            if dupe or set(got) != set(part):
                viol('partition-keys', {'got': sorted(got), 'expected': sorted(part), 'dup': dupe})
                continue
            bad = None
            for kv, r in got.items():
                for a in aggs:
                    vals_ = part[kv]
                    if a == 'sum(size) / count(*)':
                        exp, fn = sum(vals_) / len(vals_), 'avg'
                    elif a == 'max(size) - min(size)':
                        exp, fn = float(max(vals_) - min(vals_)), 'avg'
                    elif a == '10 * count(*)':
                        exp, fn = float(10 * len(vals_)), 'avg'
                    else:
                        fn = a.split('(')[0]
                        exp = expected({'count': 'count', 'sum': 'sum', 'min': 'min', 'max': 'max', 'avg': 'avg'}[fn], vals_)
                    g = r[cols.index(a)]
                    try:
                        ok = (int(g) == exp) if fn != 'avg' else close(g, exp)
                    except ValueError:
                        ok = False
                    if not ok:
                        bad = (kv, a, g, str(exp))
            if bad:
                viol('group-aggregate-wrong', {'group': bad[0], 'agg': bad[1], 'got': bad[2], 'expected': bad[3]})
                continue
            # conservation laws (differential against the ungrouped query)
            if ('count(*)' in aggs or 'sum(size)' in aggs) and not any(' ' in a for a in aggs):
                sel = [a for a in aggs if a in ('count(*)', 'sum(size)')]
                o2 = env.run([', '.join(sel) + ' from .' + w + ' into list'], cwd=root)
                tot = o2.rows(len(sel))
                tot = tot[0] if len(sel) > 1 else (tot[0],)
                for a, t in zip(sel, tot):
                    s = sum(int(r[cols.index(a)]) for r in rows)
                    if ents and s != int(t):
                        bad = ('conservation', a, s, t)
            if bad:
                viol('conservation', {'agg': bad[1], 'sum_of_groups': bad[2], 'ungrouped': bad[3]})
                continue
            # group row = ungrouped aggregate restricted to key = value (differential), first key only
            if len(keys) == 1 and keys[0] in ('ext', 'uid', 'is_dir', 'length(name)') and c['order'] is None and not any(' ' in a for a in aggs):
                for kv, r in sorted(got.items())[:4]:
                    if kv[0] == '' or "'" in kv[0] or '*' in kv[0] or '?' in kv[0]:
                        continue
                    cond = "%s = '%s'" % (keys[0], kv[0])
                    w2 = (w + ' and ' + cond) if w else (' where ' + cond)
                    o3 = env.run([', '.join(aggs) + ' from .' + w2 + ' into list'], cwd=root)
                    r3 = o3.rows(len(aggs))
                    r3 = r3[0] if len(aggs) > 1 else (r3[0],) if r3 else None
                    mine = tuple(r[cols.index(a)] for a in aggs)
                    if r3 is None or any(not close(x, y) for x, y in zip(mine, r3)):
                        bad = (cond, mine, r3)
            if bad:
                viol('group-vs-restricted-query', {'cond': bad[0], 'group_row': bad[1], 'restricted': bad[2]})
                continue
            # ordering
            if c['order']:
                spec = []
                for part in c['order'].split(', '):
                    desc = part.endswith(' desc')
                    col = part[:-5] if desc else part
                    if col.isdigit():
                        col = cols[int(col) - 1]
                    spec.append((col, desc))
                bad_pair = None
                for i in range(len(rows) - 1):
                    for col, desc in spec:
                        x, y = sort_key(col, rows[i][cols.index(col)]), sort_key(col, rows[i + 1][cols.index(col)])
                        if x == y:
                            continue
                        if (x < y) == desc:
                            bad_pair = (col, rows[i], rows[i + 1])
                        break
                    if bad_pair:
                        break
                if bad_pair:
                    viol('group-order', {'order': c['order'], 'column': bad_pair[0], 'pair': [bad_pair[1], bad_pair[2]]})
                    continue
            res.update(status='ok', sig=tuple(sorted(rows)))
            outs.append(res)
    finally:
        env.rmtree(root)
    return outs
