"""C19 Archive search lists each zip member exactly once and changes nothing else."""
import datetime as dt
import io
import itertools
import os
import stat
import zipfile
from zoneinfo import ZoneInfo

from fsx import core
from fsx.core import D, F, L

ID = 'C19'
LEVEL = 'fault_enumeration'
RULE = ('listing: zip archives with 0..6 members (nested directory members, stored/deflated, unix modes, dates across month/'
        'year ends and 29 Feb, names with spaces/UTF-8) under the extensions .zip .jar .war .ear, upper case, a wrong extension '
        'and a configured extra extension, the same archive under two hard-linked names, regex roots, four time zones (stored times inside DST gaps/folds), placed at each depth of a small tree x depth windows x filters x ORDER BY x every '
        'LIMIT 0..M+2 x archives on/off, under a controlled clock on every day of month 1..31 of Jan/Mar, 28/29 Feb and both '
        'year ends; faults: EVERY truncation length 0..L of a small archive, every single-bit flip (and ^0xFF, 0x00) of every byte of the archive (local headers, data, central '
        'directory, end record), every subset of the member list as an archive of its own, unreadable archives (chmod 000 as uid 65534, injected EIO); non-trivial = the '
        'run lists at least one member or the archive is damaged'
        '; the configured extension spelt in four letter cases')
ASSUMPTIONS = ['member rows are modelled with Python zipfile: name, uncompressed size, trailing-slash directory flag, unix mode '
               'from external_attr, DOS timestamp as local wall-clock time',
               'a byte flip may legitimately change a member name or size: for damaged archives only "no more member rows than real '
               'members, none twice, other rows unchanged, status 0/1, no panic/hang" is required',
               'clock owned through the LD_PRELOAD shim']
BUDGET = {'quick': 55, 'thorough': 900}


def bounds(tier):
    return {'members': '0..6', 'truncations': 'every length', 'flips': 'every byte of the archive x {^0xFF, ^0x01, 0x00} (thorough: every single-bit flip, two archives, and every subset of the member list as an archive)',
            'clock_days': 'all days of Jan, Feb (leap and non-leap), Mar, Dec 31'}


MEMBERS = [
    ('a.txt', 5, 0o100644, (2020, 1, 31, 23, 59, 58), zipfile.ZIP_STORED),
    ('dir/', 0, 0o040755, (2020, 2, 29, 12, 0, 0), zipfile.ZIP_STORED),
    ('dir/b b.rs', 3000, 0o100600, (2019, 12, 31, 0, 0, 0), zipfile.ZIP_DEFLATED),
    ('dir/sub/é.md', 9, 0o100755, (2021, 3, 28, 2, 30, 0), zipfile.ZIP_DEFLATED),
    ('.hidden', 0, 0o104755, (1999, 4, 30, 6, 7, 8), zipfile.ZIP_STORED),
    ('big.bin', 70000, 0o100444, (2024, 2, 29, 23, 59, 58), zipfile.ZIP_DEFLATED),
]


def zbytes(members):
    b = io.BytesIO()
    with zipfile.ZipFile(b, 'w') as z:
        for name, size, mode, date, comp in members:
            zi = zipfile.ZipInfo(name, date)
            zi.create_system = 3
            zi.external_attr = mode << 16
            zi.compress_type = comp
            z.writestr(zi, b'' if name.endswith('/') else bytes((i * 31) % 251 for i in range(size)))
    return b.getvalue()


def member_row(arc_name, arc_path, m):
    name, size, mode, date, _ = m
    return ('[%s] %s' % (arc_name, name), '[%s] %s' % (arc_path, name), str(size), 'true' if name.endswith('/') else 'false',
            stat.filemode(mode), '%04d-%02d-%02d %02d:%02d:%02d' % date)


COLS = ['name', 'path', 'size', 'is_dir', 'mode', 'modified']


def list_tree():
    return {
        'z6.zip': F(data=zbytes(MEMBERS)), 'z0.zip': F(data=zbytes([])), 'one.jar': F(data=zbytes(MEMBERS[:1])),
        'two.WAR': F(data=zbytes(MEMBERS[:2])), 'app.ear': F(data=zbytes(MEMBERS[2:4])), 'not.zipx': F(data=zbytes(MEMBERS[:1])),
        'zip': F(data=zbytes(MEMBERS[:1])), 'extra.apk': F(data=zbytes(MEMBERS[:3])), 'plain.txt': F(7),
        'd1': D({'in.zip': F(data=zbytes(MEMBERS[:3])), 'f': F(1), 'd2': D({'deep.zip': F(data=zbytes(MEMBERS[3:])), 'g': F(2)})}),
        'fake.zip': F(data=b'this is not a zip file'), 'dir.zip': D({'x': F(1)}),
        'hl.zip': {'t': 'f', 'link': 'one.jar'}, 'd1b': D({'again.zip': {'t': 'f', 'link': 'd1/in.zip'}}),
        # names whose last extension is a zip extension and which also end with a longer, configurable one
        'lib.src.zip': F(data=zbytes(MEMBERS[:2])), 'pkg': D({'util-sources.jar': F(data=zbytes(MEMBERS[1:2])), 'aaa.zip': F(data=zbytes(MEMBERS[4:5]))}),
    }


ARCHIVES = {'./hl.zip': MEMBERS[:1], './d1b/again.zip': MEMBERS[:3], './z6.zip': MEMBERS, './z0.zip': [], './one.jar': MEMBERS[:1], './two.WAR': MEMBERS[:2], './app.ear': MEMBERS[2:4],
            './d1/in.zip': MEMBERS[:3], './d1/d2/deep.zip': MEMBERS[3:], './lib.src.zip': MEMBERS[:2], './pkg/util-sources.jar': MEMBERS[1:2], './pkg/aaa.zip': MEMBERS[4:5]}


def groups(tier, seed):
    for w in (None, 'size gt 4', "name like '%.md' or name like %.txt", 'is_dir = true', "mode = '-rw-------'", 'modified lt 2020-01-01'):
        for order in (None, 'size', 'size desc', 'name', 'modified desc'):
            yield {'kind': 'list', 'where': w, 'order': order}
    yield {'kind': 'window'}
    yield {'kind': 'agg'}
    yield {'kind': 'ignore'}
    yield {'kind': 'sealed'}
    yield {'kind': 'config'}
    yield {'kind': 'rxroot'}
    yield {'kind': 'tz'}
    yield {'kind': 'classcol'}
    yield {'kind': 'names'}
    days = [(2021, 1, d) for d in range(1, 32)] + [(2021, 3, d) for d in (28, 29, 30, 31)] + [(2021, 2, 28), (2024, 2, 28), (2024, 2, 29),
                                                                                               (2020, 12, 31), (2021, 12, 31), (2021, 4, 30)]
    for i in range(0, len(days), 6):
        yield {'kind': 'clock', 'days': days[i:i + 6]}
    variants = ['small'] if tier == 'quick' else ['small', 'mid']
    for v in variants:
        data = victim(v)
        for lo in range(0, len(data) + 1, 40):
            yield {'kind': 'trunc', 'range': [lo, min(lo + 40, len(data) + 1)], 'victim': v}
        for lo in range(0, len(data), 30 if tier == 'quick' else 12):
            yield {'kind': 'flip', 'range': [lo, min(lo + (30 if tier == 'quick' else 12), len(data))], 'victim': v,
                   'bits': True}
    yield {'kind': 'unreadable'}
    if True:
        # every subset of the member list as an archive of its own
        for mask in range(1, 1 << len(MEMBERS)):
            yield {'kind': 'subset', 'mask': mask}


def victim(v):
    return zbytes(MEMBERS[:3]) if v == 'small' else zbytes([MEMBERS[0], MEMBERS[2], MEMBERS[3], MEMBERS[1], MEMBERS[4]])


def victim_members(v):
    return MEMBERS[:3] if v == 'small' else [MEMBERS[0], MEMBERS[2], MEMBERS[3], MEMBERS[1], MEMBERS[4]]


def single(case):
    g = dict(case['group'])
    g['only'] = case.get('sub')
    return g


def ordinary_rows(root, rel='.'):
    rows = []
    for dp, dns, fns in os.walk(os.path.join(root, rel)):
        for n in dns + fns:
            p = os.path.join(dp, n)
            st = os.lstat(p)
            shown = './' + os.path.relpath(p, root)
            rows.append((n, shown, str(st.st_size), 'true' if stat.S_ISDIR(st.st_mode) else 'false', stat.filemode(st.st_mode),
                         dt.datetime.utcfromtimestamp(int(st.st_mtime)).strftime('%Y-%m-%d %H:%M:%S')))
    return rows


def key_of(row, order):
    k = order.replace(' desc', '')
    v = row[COLS.index(k)]
    return int(v) if k == 'size' else v


def eval_group(env, group, tier):
    kind = group['kind']
    root = env.newdir('c19')
    outs = []
    only = group.get('only')
    g0 = {k: v for k, v in group.items() if k != 'only'}

    def emit(sub, ok, cls=None, detail=None, nt=True, sig=None, layer=None):
        if only is not None and sub != only:
            return
        r = {'case': {'group': g0, 'sub': sub}, 'layer': layer or kind, 'nt': nt}
        if ok:
            r.update(status='ok', sig=sig or ('ok',))
        else:
            r.update(status='viol', cls=cls, detail=detail, sig=('viol', cls))
        outs.append(r)
    try:
        if kind in ('list', 'window', 'config', 'clock', 'rxroot', 'tz', 'agg', 'classcol'):
            core.materialise(root, list_tree())
        if kind == 'list':
            w, order = group['where'], group['order']
            pred = {None: lambda r: True, 'size gt 4': lambda r: int(r[2]) > 4,
                    "name like '%.md' or name like %.txt": lambda r: r[0].lower().endswith('.md') or r[0].lower().endswith('.txt'),
                    'is_dir = true': lambda r: r[3] == 'true', "mode = '-rw-------'": lambda r: r[4] == '-rw-------',
                    'modified lt 2020-01-01': lambda r: r[5] < '2020-01-01'}[w]
            ords = ordinary_rows(root)
            members = [member_row(os.path.basename(a), a, m) for a, ms in ARCHIVES.items() for m in ms]
            for arc in (True, False):
                allrows = [r for r in ords + (members if arc else []) if pred(r)]
                M = len(allrows)
                for N in [None] + list(range(0, M + 3)) if (order or arc) else [None, 1, M]:
                    q = ', '.join(COLS) + ' from .' + (' archives' if arc else '') + (' where ' + w if w else '') + \
                        (' order by ' + order if order else '') + ('' if N is None else ' limit %d' % N) + ' into list'
                    o = env.run([q], cwd=root)
                    sub = ['list', arc, N]
                    rows = o.rows(len(COLS))
                    want = M if N in (None, 0) else min(N, M)
                    bad = None
                    if o.timeout or o.panicked or o.rc != 0 or o.err or rows is None:
                        bad = ('status', o.brief())
                    elif len(rows) != want:
                        bad = ('row-count', {'got': len(rows), 'expected': want})
                    elif any(rows.count(r) > allrows.count(r) for r in rows):
                        bad = ('row-not-in-model', {'rows': [r for r in rows if rows.count(r) > allrows.count(r)][:3]})
                    elif N in (None, 0) and sorted(rows) != sorted(allrows):
                        bad = ('rows-differ', {})
                    elif order:
                        desc = order.endswith(' desc')
                        ks = [key_of(r, order) for r in rows]
                        full = sorted((key_of(r, order) for r in allrows), reverse=desc)
                        if ks != full[:want]:
                            bad = ('not-top-n', {'got': ks[:8], 'expected': full[:8]})
                    emit(sub, bad is None, 'listing:' + (bad[0] if bad else ''), {'query': q, 'why': bad[1] if bad else None},
                         nt=arc, sig=(arc, N, len(rows or [])), layer='list')
        elif kind == 'classcol':
            # what the query asks about each entry (the file-class columns: is_archive, is_source, ...) neither adds nor removes a member
            ords = ordinary_rows(root)
            members = [member_row(os.path.basename(a), a, m) for a, ms in ARCHIVES.items() for m in ms]
            exp = sorted(r[1] for r in ords + members)
            plain = env.run(['path from . where is_archive = true into list'], cwd=root)
            for mode in ('', ' dfs'):
                for col in ('is_archive', 'is_source', 'is_doc', 'is_image', 'is_audio', 'is_book', 'is_font', 'is_video'):
                    for q, ncol in (('path, %s from . archives%s' % (col, mode), 2), ('%s, path from . archives%s' % (col, mode), -2),
                                    ('path from . archives%s where %s = true or path like %%' % (mode, col), 1),
                                    ('path from . archives%s where size ge 0 and (%s = true or size ge 0)' % (mode, col), 1),
                                    ('path from . archives%s order by %s, path' % (mode, col), 1),
                                    ('path from . archives%s where is_dir = false or %s = false or 1 = 1' % (mode, col), 1)):
                        o = env.run([q + ' into list'], cwd=root)
                        rows = o.rows(abs(ncol)) if abs(ncol) > 1 else o.rows()
                        got = sorted((r_[0] if ncol > 0 else r_[1]) if abs(ncol) > 1 else r_ for r_ in (rows or []))
                        emit(['classcol', q], o.rc == 0 and not o.err and got == exp, 'members-depend-on-a-class-column',
                             dict(o.brief(), query=q, missing=sorted(set(exp) - set(got))[:5], extra=sorted(set(got) - set(exp))[:5]), layer='classcol')
                # and the other way round: the archive search does not change what the column says about ordinary files
                for w in ('is_file = true and is_archive = true', "name like '%.%' and is_archive = true", 'is_dir = false and size ge 0 and is_archive = true',
                          'is_archive = true'):
                    q = "path from . archives%s where %s and path notlike '%%[%%'" % (mode, w)
                    o = env.run([q + ' into list'], cwd=root)
                    want = sorted(r_ for r_ in plain.rows() if os.path.isfile(os.path.join(root, r_)) or 'is_file' not in w and 'is_dir' not in w)
                    emit(['classcol-back', q], plain.rc == 0 and o.rc == 0 and not o.err and sorted(o.rows()) == want, 'class-column-depends-on-the-archive-search',
                         dict(o.brief(), query=q, expected=want), layer='classcol')
            # an archive that was packed one level up holds members named like the paths of files met later (backup.zip made by `zip -r proj/backup.zip proj`)
            import zipfile as _zf
            import io as _io2
            holder2 = env.newdir('c19p')
            try:
                inner = zbytes(MEMBERS[:2])
                b2 = _io2.BytesIO()
                with _zf.ZipFile(b2, 'w') as z2:
                    for nm, data_ in (('proj/lib/app.jar', inner), ('proj/lib/', b''), ('proj/readme', b'r'), ('proj/web.war', inner), ('proj/x.tar.gz', b'g'), ('./proj/lib/app.jar', inner)):
                        z2.writestr(_zf.ZipInfo(nm, (2020, 1, 2, 3, 4, 6)), data_)
                core.materialise(holder2, {'proj': D({'backup.zip': F(data=b2.getvalue()), 'readme': F(1), 'web.war': F(data=inner), 'x.tar.gz': F(1), 'lib': D({'app.jar': F(data=inner), 'app.ear': F(data=inner)})})})
                ref = env.run(['path from proj archives into list'], cwd=holder2)
                for mode in ('', ' dfs'):
                    # (conditions that are true of every row)
                    for w, keep in (('is_archive = false or is_archive = true', None), ('is_archive = true or is_archive = false', None), ('is_archive = false or size ge 0', None),
                                    ('is_archive != true or is_dir = false or is_dir = true', None), ('size ge 0 and (is_archive = true or size ge 0)', None)):
                        for frm, cwd2 in (('proj', holder2), ('.', os.path.join(holder2, 'proj')), ('./proj', holder2)):
                            q = 'path from %s archives%s where %s' % (frm, mode, w)
                            o = env.run([q + ' into list'], cwd=cwd2)
                            o_all = env.run(['path from %s archives%s into list' % (frm, mode)], cwd=cwd2)
                            # members of the later archives (lib/app.jar, lib/app.ear, web.war) are there whatever the query asks about is_archive
                            want = sorted(r_ for r_ in o_all.rows() if r_.startswith('[') and 'backup.zip' not in r_)
                            got = sorted(r_ for r_ in o.rows() if r_.startswith('[') and 'backup.zip' not in r_)
                            emit(['classcol-packed-one-level-up', q], o.rc == 0 and o_all.rc == 0 and len(want) == 6 and got == want,
                                 'members-depend-on-a-class-column', dict(o.brief(), query=q, missing=sorted(set(want) - set(got))[:6], n_expected=len(want)), layer='classcol')
            finally:
                env.rmtree(holder2)
        elif kind == 'names':
            # one archive under several names (symbolic links, hard links; followed or not): its members are listed under every name that is searched
            z = zbytes(MEMBERS[:2])
            core.materialise(root, {'a.zip': F(data=z), 'l.zip': L('a.zip'), 'k.jar': L('sub/../a.zip'), 'sub': D({'h.zip': {'t': 'f', 'link': 'a.zip'}, 'm.zip': L('../a.zip')}),
                                    'other': D({'o.zip': L('../sub/h.zip'), 'plain': F(1)}), 'dangling.zip': L('nowhere.zip'), 'dirlink.zip': L('sub')})
            ords = [r_[1] for r_ in ordinary_rows(root)]
            for opts in ('archives symlinks', 'symlinks archives', 'archives symlinks dfs', 'archives', 'archives dfs'):
                for frm in ('.', 'sub, .', 'other, sub'):
                    q = 'path from ' + ', '.join(r_ + ' ' + opts for r_ in frm.split(', '))
                    o = env.run([q + ' into list'], cwd=root)
                    base = env.run(['path from ' + ', '.join(r_ + ' ' + opts.replace('archives', '').strip() for r_ in frm.split(', ')) + ' into list'], cwd=root)
                    exp = list(base.rows())
                    follow = 'symlinks' in opts
                    for a in base.rows():
                        full = os.path.join(root, a)
                        if a.lower().endswith(('.zip', '.jar')) and os.path.isfile(full) and (follow or not os.path.islink(full)):
                            exp += ['[%s] %s' % (a, m[0]) for m in MEMBERS[:2]]
                    got_ = o.rows()
                    if not follow:      # whether a link that is not followed is opened as an archive is not stated: only real names are compared
                        links_ = tuple('[%s] ' % a for a in base.rows() if os.path.islink(os.path.join(root, a)))
                        got_ = [r_ for r_ in got_ if not (links_ and r_.startswith(links_))]
                    emit(['names', q], base.rc == 0 and o.rc == 0 and sorted(got_) == sorted(exp), 'members-under-every-name-of-an-archive',
                         dict(o.brief(), query=q, missing=sorted(set(exp) - set(o.rows()))[:6], extra=sorted(set(o.rows()) - set(exp))[:6]), nt=follow, layer='names')
        elif kind == 'agg':
            # aggregates see every member whatever LIMIT says; LIMIT trims result rows only
            ords = ordinary_rows(root)
            members = [member_row(os.path.basename(a), a, m) for a, ms in ARCHIVES.items() for m in ms]
            for w, pred in ((None, lambda r: True), ('size gt 4', lambda r: int(r[2]) > 4), ("name like '%.md' or name like %.txt",
                            lambda r: r[0].lower().endswith('.md') or r[0].lower().endswith('.txt'))):
                rows_ = [r for r in ords + members if pred(r)]
                for N in (None, 1, 2, 3, 10, 1000):
                    q = 'count(*), sum(size) from . archives' + (' where ' + w if w else '') + ('' if N is None else ' limit %d' % N) + ' into list'
                    o = env.run([q], cwd=root)
                    want = [(str(len(rows_)), str(sum(int(r[2]) for r in rows_)))]
                    emit(['agg', w, N], o.rc == 0 and not o.err and o.rows(2) == want, 'aggregate-over-members',
                         dict(o.brief(), query=q, expected=want), layer='aggregate')
                    groups_ = {}
                    for r in rows_:
                        groups_.setdefault(r[3], []).append(int(r[2]))
                    q = 'is_dir, count(*), sum(size) from . archives' + (' where ' + w if w else '') + ' group by is_dir order by is_dir' + \
                        ('' if N is None else ' limit %d' % N) + ' into list'
                    o = env.run([q], cwd=root)
                    want = [(k_, str(len(v_)), str(sum(v_))) for k_, v_ in sorted(groups_.items())][:N]
                    emit(['agg-grouped', w, N], o.rc == 0 and not o.err and o.rows(3) == want, 'aggregate-over-members',
                         dict(o.brief(), query=q, expected=want), layer='aggregate')
        elif kind == 'sealed':
            # members that cannot be unpacked here (encrypted, unknown compression method) are members all the same
            import io as _io
            import struct as _st
            b_ = _io.BytesIO()
            with zipfile.ZipFile(b_, 'w') as z:
                for nm, n in (('m1', 3), ('secret', 11), ('m3', 5), ('ppmd', 7), ('m5', 2)):
                    z.writestr(zipfile.ZipInfo(nm, (2020, 1, 2, 3, 4, 6)), b'x' * n)
            data = bytearray(b_.getvalue())
            pos, idx = 0, 0
            while True:                               # central directory records, in order
                pos = bytes(data).find(b'PK\x01\x02', pos)
                if pos < 0:
                    break
                loc = _st.unpack('<I', data[pos + 42:pos + 46])[0]
                if idx == 1:                          # `secret`: encrypted flag in both headers
                    data[pos + 8] |= 1
                    data[loc + 6] |= 1
                if idx == 3:                          # `ppmd`: compression method 98
                    data[pos + 10:pos + 12] = _st.pack('<H', 98)
                    data[loc + 8:loc + 10] = _st.pack('<H', 98)
                pos += 4
                idx += 1
            core.materialise(root, {'sealed.zip': F(data=bytes(data)), 'plain': F(1)})
            for q, want in (('name, size from . archives where name != sealed.zip into list',
                             [('[sealed.zip] m1', '3'), ('[sealed.zip] secret', '11'), ('[sealed.zip] m3', '5'), ('[sealed.zip] ppmd', '7'), ('[sealed.zip] m5', '2'), ('plain', '1')]),
                            ('count(*), sum(size) from . archives where name != sealed.zip into list', [('6', '29')])):
                o = env.run([q], cwd=root)
                emit(['sealed', q], o.rc == 0 and not o.err and sorted(o.rows(2) or []) == sorted(want), 'member-that-cannot-be-unpacked-missing',
                     dict(o.brief(), query=q, expected=want), layer='sealed')
        elif kind == 'ignore':
            # an archive that the ignore rules remove contributes no member either; everything else is unchanged
            z = zbytes(MEMBERS[:2])
            core.materialise(root, {'.dockerignore': F(data='*.zip\n!keep.zip\nsecret\n!secret/readme\n'), '.hgignore': F(data='syntax: glob\n*.jar\nhidden\n'),
                                    '.hg': D({}), 'keep.zip': F(data=z), 'drop.zip': F(data=z), 'lib.jar': F(data=z), 'secret': D({'in.zip': F(data=z), 'readme': F(1)}),
                                    'hidden': D({'h.zip': F(data=z)}), 'src': D({'a.zip': F(data=z), 'b.jar': F(data=z), 'c.txt': F(3)})})
            for opt in ('dockerignore', 'hgignore', 'dockerignore hgignore', ''):
                for mode in ('', ' dfs'):
                    base = env.run(['path from . %s%s into list' % (opt, mode)], cwd=root)
                    o = env.run(['path from . archives %s%s into list' % (opt, mode)], cwd=root)
                    listed = base.rows()
                    exp = list(listed)
                    for a in listed:
                        if a.lower().endswith(('.zip', '.jar')) and os.path.isfile(os.path.join(root, a)):
                            exp += ['[%s] %s' % (a, m[0]) for m in MEMBERS[:2]]
                    ok = base.rc == 0 and o.rc == 0 and not o.err and sorted(o.rows()) == sorted(exp)
                    emit(['ignore', opt, mode], ok, 'members-of-ignored-archive', {'query': 'path from . archives %s%s' % (opt, mode),
                         'extra': sorted(set(o.rows()) - set(exp))[:6], 'missing': sorted(set(exp) - set(o.rows()))[:6], 'err': o.brief()['err']},
                         nt=bool(opt), layer='ignore')
        elif kind == 'window':
            members = {a: [member_row(os.path.basename(a), a, m) for m in ms] for a, ms in ARCHIVES.items()}
            ords = ordinary_rows(root)
            for mn, mx in itertools.product((None, 1, 2, 3, 4), repeat=2):
                for mode in ('', ' dfs'):
                    q = 'path from . archives' + ('' if mn is None else ' mindepth %d' % mn) + ('' if mx is None else ' maxdepth %d' % mx) + mode + ' into list'
                    o = env.run([q], cwd=root)
                    inwin = lambda lvl: (mn is None or lvl >= mn) and (mx is None or lvl <= mx)
                    exp = [r[1] for r in ords if inwin(r[1].count('/'))]
                    for a, ms in members.items():
                        if inwin(a.count('/')):
                            exp += [m[1] for m in ms]
                    ok = o.rc == 0 and not o.err and sorted(o.rows()) == sorted(exp)
                    emit(['window', mn, mx, mode], ok, 'members-in-depth-window', dict(o.brief(), query=q, expected_n=len(exp)), layer='window')
        elif kind == 'rxroot':
            # search roots given as a regular expression keep their options
            for frm, dirs_ in (('d1.* archives rx', ['d1', 'd1b']), ('d1 archives, d1b archives', ['d1', 'd1b']), ('d[1] dfs archives rx', ['d1'])):
                o = env.run(['path from ' + frm + ' into list'], cwd=root)
                exp = []
                for dname in dirs_:
                    exp += [r_[1][2:] for r_ in ordinary_rows(root, dname)]
                for a, ms in ARCHIVES.items():
                    if any(a.startswith('./' + dname + '/') for dname in dirs_):
                        exp += [member_row('', a[2:], m)[1] for m in ms]
                emit(['rxroot', frm], o.rc == 0 and sorted(o.rows()) == sorted(exp), 'regex-root-with-archives', dict(o.brief(), query=frm, expected_n=len(exp)), layer='rxroot')
        elif kind == 'tz':
            members = [member_row(os.path.basename(a), a, m) for a, ms in ARCHIVES.items() for m in ms]
            exp = sorted((m[1], m[5]) for m in members)
            for tz in ('UTC', 'Europe/Berlin', 'America/New_York', 'Australia/Lord_Howe'):
                o = env.run(["path, modified from . archives where name like '[%' into list"], cwd=root, env={'TZ': tz})
                rows = o.rows(2)
                emit(['tz', tz], o.rc == 0 and rows is not None and sorted(rows) == exp, 'member-date-depends-on-zone', dict(o.brief(), tz=tz), layer='tz')
                o = env.run(["path from . archives where name like '[%' order by modified, path into list"], cwd=root, env={'TZ': tz})
                want = [m[1] for m in sorted(members, key=lambda m: (m[5], m[1]))]
                emit(['tz-order', tz], o.rc == 0 and o.rows() == want, 'member-date-order-depends-on-zone', dict(o.brief(), tz=tz), layer='tz')
        elif kind == 'config':
            conf0 = open(env.config_path()).read()
            import re
            # the configured spelling of an extension does not matter, as the spelling of the file name does not
            for spelt in ('[".zip", ".apk"]', '[".ZIP", ".APK"]', '[".Zip", ".Apk"]', '[".zip", ".aPK"]', '[".src.zip"]', '[".src.zip", "-sources.jar"]', '["-sources.jar", ".apk"]',
                          '["ib.src.zip", ".war"]', '[".zip", "sources.JAR"]'):
                suffixes = [x.lower() for x in re.findall(r'"([^"]+)"', spelt)]
                for rd in ('sorted', 'rev'):
                    try:
                        env.set_config(re.sub(r'(?ms)^is_zip_archive = \[.*?\]', 'is_zip_archive = ' + spelt, conf0))
                        o = env.run(['path from . archives into list'], cwd=root, preload=True, env={'FSX_READDIR': rd})
                    finally:
                        env.set_config(conf0)
                    exp = [r[1] for r in ordinary_rows(root)]
                    for a, ms in list(ARCHIVES.items()) + [('./extra.apk', MEMBERS[:3])]:
                        if any(a.lower().endswith(x) for x in suffixes):
                            exp += [member_row('', a, m)[1] for m in ms]
                    emit(['config', spelt, rd], o.rc == 0 and sorted(o.rows()) == sorted(exp), 'configured-zip-extensions',
                         dict(o.brief(), expected_n=len(exp), configured=spelt, readdir=rd), layer='config')
        elif kind == 'clock':
            members = [member_row(os.path.basename(a), a, m) for a, ms in ARCHIVES.items() for m in ms]
            exp = sorted((m[1], m[5]) for m in members)
            for (y, mo, d) in group['days']:
                for hh in (0, 12, 23):
                    now = int(dt.datetime(y, mo, d, hh, 30, 0, tzinfo=ZoneInfo('UTC')).timestamp())
                    q = "path, modified from . archives where name like '[%' into list"
                    o = env.run([q], cwd=root, preload=True, env={'FSX_NOW': str(now)})
                    rows = o.rows(2)
                    ok = not o.timeout and not o.panicked and o.rc == 0 and rows is not None and sorted(rows) == exp
                    emit(['clock', y, mo, d, hh], ok, 'member-date-depends-on-today', dict(o.brief(), query=q, now='%04d-%02d-%02d %02d:30' % (y, mo, d, hh)),
                         layer='clock')
        elif kind == 'subset':
            ms = [m for i, m in enumerate(MEMBERS) if group['mask'] >> i & 1]
            core.materialise(root, {'s.zip': F(data=zbytes(ms)), 'x': F(1)})
            o = env.run([', '.join(COLS) + ' from . archives order by path into list'], cwd=root)
            exp = sorted(ordinary_rows(root) + [member_row('s.zip', './s.zip', m) for m in ms], key=lambda r: r[1])
            rows = o.rows(len(COLS))
            emit(['subset', group['mask']], o.rc == 0 and not o.err and rows == exp, 'listing:member-subset', dict(o.brief(), n=len(ms)), layer='subset')
        elif kind in ('trunc', 'flip', 'unreadable'):
            small = victim(group.get('victim', 'small'))
            good = zbytes(MEMBERS[3:5])
            base_tree = {'good.zip': F(data=good), 'other.txt': F(3), 'sub': D({'x': F(1)})}
            good_rows = sorted('[./good.zip] ' + m[0] for m in MEMBERS[3:5])
            real = ['[./bad.zip] ' + m[0] for m in victim_members(group.get('victim', 'small'))]

            def run_variant(sub, data=None, user=None, envx=None, intact=False):
                if only is not None and sub != only:
                    return
                t = dict(base_tree)
                t['bad.zip'] = F(data=data if data is not None else small, mode=0 if user else 0o644)
                d = env.newdir('v')
                os.chmod(d, 0o755)
                try:
                    core.materialise(d, t)
                    # json, not list: a damaged name may contain a NUL byte
                    o = env.run(['path from . archives order by path into json'], cwd=d, user=user, env=envx, preload=envx is not None, timeout=10.0)
                    try:
                        import json
                        rows = [list(x.values())[0] for x in json.loads(o.out.decode('utf-8', 'replace'))]
                    except ValueError:
                        rows = []
                        if not o.panicked and not o.timeout:
                            emit(sub, False, 'damaged-archive:output-not-json', dict(o.brief(), sub=sub), layer=kind)
                            return
                    others = sorted(['./bad.zip', './good.zip', './other.txt', './sub', './sub/x'] + good_rows)
                    mem = [r for r in rows if r.startswith('[./bad.zip] ')]
                    rest = sorted(r for r in rows if not r.startswith('[./bad.zip] '))
                    bad = None
                    if o.timeout:
                        bad = 'hang'
                    elif o.panicked or o.rc not in (0, 1):
                        bad = 'crash'
                    elif rest != others:
                        bad = 'other-rows-lost-or-changed'
                    elif len(mem) > len(real) or len(set(mem)) != len(mem):
                        bad = 'too-many-or-duplicate-members'
                    elif intact and sorted(mem) != sorted(real):
                        bad = 'intact-archive-members-wrong'
                    emit(sub, bad is None, 'damaged-archive:' + (bad or ''), dict(o.brief(), sub=sub), nt=not intact, sig=(len(mem), o.rc), layer=kind)
                finally:
                    env.rmtree(d)
            os.chmod(env.base, 0o755)
            os.chmod(os.path.dirname(env.base), 0o755)
            os.chmod(root, 0o755)
            if kind == 'trunc':
                for n in range(group['range'][0], group['range'][1]):
                    run_variant(['trunc', n], data=small[:n], intact=(n == len(small)))
            elif kind == 'flip':
                for i in range(group['range'][0], group['range'][1]):
                    fl = ['ff', '01', '00'] + (['b%d' % k for k in range(1, 8)] if group.get('bits') else [])
                    for f in fl:
                        b = bytearray(small)
                        b[i] = (b[i] ^ 0xFF) if f == 'ff' else (b[i] ^ 0x01) if f == '01' else 0 if f == '00' else b[i] ^ (1 << int(f[1]))
                        if bytes(b) != small:
                            run_variant(['flip', i, f], data=bytes(b))
            else:
                run_variant(['chmod000'], user=65534)
                for n in (0, 1, 30, 100, len(small) - 30, len(small) - 1):
                    run_variant(['eio', n], envx={'FSX_FAIL': 'read:bad.zip:EIO:%d' % n})
                run_variant(['open-eacces'], envx={'FSX_FAIL': 'open:bad.zip:EACCES'})
                run_variant(['intact'], intact=True)
    finally:
        env.rmtree(root)
    return outs
