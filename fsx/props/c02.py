"""C02 WHERE comparisons mean what the documentation says, for every entry."""
import itertools
import os
import stat
import subprocess

from fsx import core
from fsx import matchers as mt
from fsx.core import D, F, L

ID = 'C02'
LEVEL = 'exploration'
RULE = ('attribute-rich tree(s) x every always-available column (name, path, ext, dir, size, uid, gid, hardlinks, mode, '
        'is_* and permission booleans, modified, line_count, length(name)) x every documented operator in every '
        'documented spelling x literals {values present, v-1, v+1, size-unit spellings, quoted and unquoted, literals '
        'that spell a column or function name}; BETWEEN over neighbouring literals; column OP column for compatible '
        'pairs; non-trivial = the condition accepts some but not all entries')
ASSUMPTIONS = ['attribute values come from lstat of the generated tree',
               'operator/type combinations the statement does not define (text with >, numeric with like) are not generated',
               'line_count is compared inside a directory holding regular files only',
               'TZ=UTC; date literals at full precision (C13 decides the interval semantics)']
BUDGET = {'quick': 50, 'thorough': 900}

T0 = 1614834367  # 2021-03-04 05:06:07 UTC
OFFS = [-86400, -3600, -60, -1, 0, 1, 60, 3600, 86400]

EQ = ['=', '==', 'eq']
NE = ['!=', '<>', 'ne']
EEQ = ['===', 'eeq']
ENE = ['!==', 'ene']
GT, GE, LT, LE = ['>', 'gt'], ['>=', 'gte', 'ge'], ['<', 'lt'], ['<=', 'lte', 'le']
RX = ['=~', '~=', 'regexp', 'rx']
NRX = ['!=~', '!~=', 'notrx']
LIKE, NLIKE = ['like'], ['notlike', 'not like']


def bounds(tier):
    return {'trees': 1 if tier == 'quick' else 2, 'operator_spellings': 'all documented', 'literals': 'v-1,v,v+1 of every value + units'}


def the_tree(variant=0):
    lines = lambda n: 'l\n' * n
    t = {
        'size': F(0), 'name': F(1), 'bin': F(9, mode=0o755), 'lower': F(10), 'true': F(11, mode=0o600),
        'a.bin': F(999), 'x.size': F(1000, uid=1, gid=1), 'k1023': F(1023), 'k1024': F(1024),
        'k1025': F(1025, uid=65534, gid=65534), 'm-1': F(1048575, sparse=True), 'm0.dat': F(1048576, sparse=True),
        'm1.dat': F(1048577, sparse=True, uid=4242, gid=4242), 'h1': F(5), 'h2': {'t': 'f', 'link': 'h1'},
        'h3': {'t': 'f', 'link': 'h1'}, '.hid': F(3), 'su': F(2, mode=0o4755), 'sg': F(2, mode=0o2755),
        'ro': F(2, mode=0o444), 'none': F(2, mode=0), 'wx': F(2, mode=0o233), 'Name.TXT': F(12),
        'sub': D({'size': F(10), 'deep.txt': F(7)}), 'emptyd': D({}, mode=0o700), 'lnk': L('sub'), 'pipe': {'t': 'p'},
        'bs\\': F(16), 'mid\\dle': F(17), 'dq"x': F(18),
        'g': D({'???': F(3)}), 'AB': D({'*': F(1), '????': F(2)}), 'q.?': F(4),
        'lc': D({'big70k': F(data='line..\n' * 10000), 'big200k': F(data='x\n' * 100001 + 'tail'), 'l0': F(data=''), 'l1': F(data=lines(1)), 'l2': F(data=lines(2)), 'l10': F(data=lines(10)),
                 'nl': F(data='a\nb'), 'l3.txt': F(data=lines(3))}),
    }
    if variant == 1:
        t = {'one': F(1024, mode=0o640, uid=1), 'two.kb': F(1000), 'd': D({'one': F(1), 'three': F(1048576, sparse=True)}),
             'size': D({'name': F(4)}), 'ext': F(4), 'upper': L('one')}
    i = 0
    for p, node, lvl in core.walk_tree(t):
        if node['t'] != 'l':
            node['mtime'] = T0 + OFFS[i % len(OFFS)]
            i += 1
    return t


def entries(root, sub='.'):
    res = []
    base = os.path.join(root, sub) if sub != '.' else root
    for dp, dns, fns in os.walk(base):
        for n in dns + fns:
            p = os.path.join(dp, n)
            st = os.lstat(p)
            rel = os.path.relpath(p, base)
            d = os.path.dirname(rel)
            m = st.st_mode
            e = {'name': n, 'path': sub + '/' + rel if sub != '.' else './' + rel,
                 'ext': n.rsplit('.', 1)[1] if '.' in n[1:] else '',
                 'dir': (sub if not d else sub + '/' + d), 'size': st.st_size, 'uid': st.st_uid, 'gid': st.st_gid,
                 'hardlinks': st.st_nlink, 'mode': stat.filemode(m), 'modified': int(st.st_mtime), 'length(name)': len(n),
                 'is_dir': stat.S_ISDIR(m), 'is_file': stat.S_ISREG(m), 'is_symlink': stat.S_ISLNK(m),
                 'is_pipe': stat.S_ISFIFO(m), 'is_hidden': n.startswith('.'),
                 'user_read': bool(m & 0o400), 'user_write': bool(m & 0o200), 'user_exec': bool(m & 0o100),
                 'group_read': bool(m & 0o040), 'group_write': bool(m & 0o020), 'group_exec': bool(m & 0o010),
                 'other_read': bool(m & 0o004), 'other_write': bool(m & 0o002), 'other_exec': bool(m & 0o001),
                 'user_all': m & 0o700 == 0o700, 'group_all': m & 0o070 == 0o070, 'other_all': m & 0o007 == 0o007,
                 'suid': bool(m & 0o4000), 'sgid': bool(m & 0o2000)}
            if stat.S_ISREG(m) and st.st_size < 1 << 20:
                with open(p, 'rb') as f:
                    e['line_count'] = f.read().count(b'\n')
            res.append(e)
    return res


NUM = ['size', 'uid', 'gid', 'hardlinks', 'length(name)', 'line_count']
TEXT = ['name', 'path', 'ext', 'dir', 'mode']
BOOL = ['is_dir', 'is_file', 'is_symlink', 'is_pipe', 'is_hidden', 'user_read', 'user_write', 'user_exec', 'user_all',
        'group_read', 'group_write', 'group_exec', 'group_all', 'other_read', 'other_write', 'other_exec', 'other_all',
        'suid', 'sgid']
BOOL_LITS = [('true', True), ('false', False), ('1', True), ('0', False), ('yes', True), ('no', False), ('TRUE', True)]


def fmt_date(ts):
    import time
    return time.strftime('%Y-%m-%d %H:%M:%S', time.gmtime(ts))


def num_cmp(op, a, b):
    return {'eq': a == b, 'ne': a != b, 'eeq': a == b, 'ene': a != b, 'gt': a > b, 'ge': a >= b, 'lt': a < b, 'le': a <= b}[op]


OPSETS = {'eq': EQ, 'ne': NE, 'eeq': EEQ, 'ene': ENE, 'gt': GT, 'ge': GE, 'lt': LT, 'le': LE, 'rx': RX, 'nrx': NRX,
          'like': LIKE, 'nlike': NLIKE}


def gen_cases(col, kind, ents, tier):
    """yield (condition text, predicate(entry), class)"""
    if kind == 'num':
        vals = sorted({e[col] for e in ents})
        lits = sorted({x for v in vals for x in (v - 1, v, v + 1)})
        if tier == 'quick' and len(lits) > 24:
            lits = lits[:12] + lits[-12:]
        for op in ('eq', 'ne', 'eeq', 'ene', 'gt', 'ge', 'lt', 'le'):
            for sp in OPSETS[op]:
                for lit in lits:
                    for quoted in ((False, True) if sp in ('=', '>', 'le') else (False,)):
                        txt = ("'%d'" % lit) if quoted else str(lit)
                        yield ('%s %s %s' % (col, sp, txt), (lambda e, op=op, lit=lit: num_cmp(op, e[col], lit)),
                               'num-neg-literal' if lit < 0 else 'num')
        if col == 'size':
            for unit_lit in ('1k', '1kb', '1kib', '1K', '1Kb', '1m', '1mb', '1MiB', '0.5k', '1b', '1023b', '2k', '1.5kb'):
                n = mt.parse_size(unit_lit)
                for op in ('eq', 'gt', 'ge', 'lt', 'le', 'ne'):
                    yield ('%s %s %s' % (col, OPSETS[op][0], unit_lit), (lambda e, op=op, n=n: num_cmp(op, e[col], n)), 'num-unit')
        for a, b in zip(lits, lits[1:]):
            yield ('%s between %d and %d' % (col, a, b), (lambda e, a=a, b=b: a <= e[col] <= b), 'between')
        for a, b in zip(vals, vals[2:]):
            yield ('%s between %d and %d' % (col, a, b), (lambda e, a=a, b=b: a <= e[col] <= b), 'between')
    elif kind == 'text':
        vals = sorted({e[col] for e in ents if e[col] != ''})
        if tier == 'quick':
            vals = vals[:14] + [v for v in vals[14:] if '\\' in v or '"' in v]
        for v in vals:
            plain = all(c.isalnum() or c in '._/' for c in v) and not v[0].isdigit()
            for quoted in ((False, True) if plain else (True,)):
                lit = ("'%s'" % v if "'" not in v else '"%s"' % v) if quoted else v
                cls = 'text-quoted-keyword' if quoted and v in ('size', 'name', 'bin', 'lower', 'true', 'ext', 'upper') else 'text'
                if not quoted and v in ('size', 'name', 'bin', 'lower', 'true', 'ext', 'upper', 'lc', 'sub', 'none', 'wx', 'su', 'sg', 'ro'):
                    continue   # an unquoted word that spells a column/function is not a literal
                for op in ('eq', 'ne', 'eeq', 'ene'):
                    for sp in OPSETS[op]:
                        if op in ('eq', 'ne') and mt.has_glob(v):      # a value that contains * or ? is a pattern to `=` and `!=`
                            pred = (lambda e, v=v, neg=(op == 'ne'): mt.glob_match(v, e[col]) != neg)
                        elif op in ('eq', 'eeq'):
                            pred = (lambda e, v=v: e[col] == v)
                        else:
                            pred = (lambda e, v=v: e[col] != v)
                        yield ('%s %s %s' % (col, sp, lit), pred, cls)
        if True:
            pass
        for v in vals:
            if len(v) >= 2 and "'" not in v:
                g1, g2, g3 = v[0] + '*', '*' + v[-1], '?' + v[1:]
                for g in (g1, g2, g3):
                    for sp in EQ[:1] + NE[:1]:
                        neg = sp in NE
                        yield ("%s %s '%s'" % (col, sp, g), (lambda e, g=g, neg=neg: mt.glob_match(g, e[col]) != neg), 'text-glob')
                    # === takes the wildcard literally
                    yield ("%s === '%s'" % (col, g), (lambda e, g=g: e[col] == g), 'text-eeq-literal')
                l1, l2 = v[0] + '%', '_' + v[1:]
                for l in (l1, l2):
                    for sp in LIKE + NLIKE:
                        neg = sp in NLIKE
                        yield ("%s %s '%s'" % (col, sp, l), (lambda e, l=l, neg=neg: mt.like_match(l, e[col]) != neg), 'text-like')
                rx = '^' + __import__('re').escape(v[:2])
                for sp in RX + NRX:
                    neg = sp in NRX
                    yield ("%s %s '%s'" % (col, sp, rx), (lambda e, rx=rx, neg=neg: mt.regex_search(rx, e[col]) != neg), 'text-regex')
        # quoted literals that spell a column or function in ANY letter case, incl. the internal display names
        for lit in ('Name', 'NAME', 'Size', 'Path', 'Extension', 'Ext', 'Mode', 'Directory', 'Dir', 'Lower(Name)', 'lower(name)', 'Length(Name)',
                    'Uid', 'Modified', 'IsDir', 'is_dir'):
            for sp, neg in (('=', False), ('!=', True), ('===', False), ('!==', True), ('like', False), ('notlike', True)):
                yield ("%s %s '%s'" % (col, sp, lit), (lambda e, lit=lit, neg=neg, sp=sp: ((e[col].lower() == lit.lower()) if 'like' in sp else (e[col] == lit)) != neg),
                       'text-quoted-keyword')
        if col == 'name':
            for lit in ('Name', 'Lower(Name)', 'lower(name)', 'name'):
                yield ("lower(name) = '%s'" % lit, (lambda e, lit=lit: e['name'].lower() == lit), 'text-quoted-keyword')
                yield ("length(name) = '%s'" % 4, (lambda e: len(e['name']) == 4), 'text-quoted-keyword')
    elif kind == 'bool':
        for lit, b in BOOL_LITS:
            for sp in EQ + NE:
                neg = sp in NE
                yield ('%s %s %s' % (col, sp, lit), (lambda e, b=b, neg=neg: (e[col] == b) != neg), 'bool')
        yield (col, (lambda e: e[col]), 'bool-bare')
    elif kind == 'date':
        vals = sorted({e[col] for e in ents})
        lits = sorted({x for v in vals for x in (v - 1, v, v + 1)})
        for lit in lits:
            for op in ('eq', 'ne', 'gt', 'ge', 'lt', 'le'):
                for sp in OPSETS[op][:2]:
                    yield ("%s %s '%s'" % (col, sp, fmt_date(lit)), (lambda e, op=op, lit=lit: num_cmp(op, e[col], lit)), 'date')
        # literals at day / hour / minute precision denote intervals (C13 decides the details)
        import time as _t
        for v in vals:
            for fmt_, span in (('%Y-%m-%d', 86400), ('%Y-%m-%d %H', 3600), ('%Y-%m-%d %H:%M', 60)):
                a = v - v % span
                b = a + span - 1
                lit = _t.strftime(fmt_, _t.gmtime(v))
                for op, f in (('=', lambda t, a, b: a <= t <= b), ('!=', lambda t, a, b: not a <= t <= b), ('>', lambda t, a, b: t > b),
                              ('>=', lambda t, a, b: t >= a), ('<', lambda t, a, b: t < a), ('<=', lambda t, a, b: t <= b)):
                    yield ("%s %s '%s'" % (col, op, lit), (lambda e, f=f, a=a, b=b: f(e[col], a, b)), 'date-interval')
        for a, b in zip(lits, lits[3:]):
            yield ("%s between '%s' and '%s'" % (col, fmt_date(a), fmt_date(b)), (lambda e, a=a, b=b: a <= e[col] <= b), 'date-between')
    elif kind == 'extra':
        # literals that are numbers but no small whole numbers, against integer columns
        for lit, v in (('1.5', 1.5), ('1.0', 1.0), ('0.5', 0.5), ('10.25', 10.25), ('999.999', 999.999), ('9223372036854775808', 2.0 ** 63),
                       ('18446744073709551615', 2.0 ** 64), ('99999999999999999999', 1e20), ('9000000t', 9e6 * 1024 ** 4), ('0.1m', 104857.6),
                       ('2.01kb', 2010.0), ('1.001mb', 1001000.0), ('0.0005k', 0.512)):
            for col in ('size', 'hardlinks', 'length(name)'):
                for op in ('eq', 'ne', 'gt', 'ge', 'lt', 'le'):
                    yield ('%s %s %s' % (col, OPSETS[op][0], lit), (lambda e, col=col, op=op, v=v: num_cmp(op, e[col], v)), 'num-literal-shape')
        yield ('size between 0.5 and 1.5', (lambda e: 0.5 <= e['size'] <= 1.5), 'num-literal-shape')
        yield ('size between 2.01kb and 0.1m', (lambda e: 2010 <= e['size'] <= 104857.6), 'num-literal-shape')
        # the same digits with both signs in one condition (each literal is its own number)
        for k in (5, 12, 1, 100):
            for col, f in (('size - 10', lambda e: e['size'] - 10), ('hardlinks - 2', lambda e: e['hardlinks'] - 2), ('size', lambda e: e['size']),
                           ('length(name) - 8', lambda e: e['length(name)'] - 8)):
                yield ('%s > -%d and %s < %d' % (col, k, col, k), (lambda e, f=f, k=k: -k < f(e) < k), 'signed-literal-pair')
                yield ('%s < %d and %s > -%d' % (col, k, col, k), (lambda e, f=f, k=k: -k < f(e) < k), 'signed-literal-pair')
                yield ('%s between -%d and %d' % (col, k, k), (lambda e, f=f, k=k: -k <= f(e) <= k), 'signed-literal-pair')
                yield ('%s < -%d or %s > %d' % (col, k, col, k), (lambda e, f=f, k=k: f(e) < -k or f(e) > k), 'signed-literal-pair')
                yield ('%s = %d or %s = -%d' % (col, k, col, k), (lambda e, f=f, k=k: f(e) in (k, -k)), 'signed-literal-pair')
                yield ('-%d < %s and %d > %s' % (k, col, k, col), (lambda e, f=f, k=k: -k < f(e) < k), 'signed-literal-pair')
        # the empty text
        for col in ('ext', 'name'):
            for sp, f in (('=', lambda a: a == ''), ('!=', lambda a: a != ''), ('===', lambda a: a == ''), ('!==', lambda a: a != ''),
                          ('like', lambda a: a == ''), ('notlike', lambda a: a != '')):
                for qq in ("''", '""'):
                    yield ('%s %s %s' % (col, sp, qq), (lambda e, col=col, f=f: f(e[col])), 'empty-literal')
        # two text columns: the attributes themselves are compared, whatever characters they contain
        for a, b in (('name', 'ext'), ('dir', 'name'), ('name', 'dir'), ('path', 'name'), ('ext', 'name')):
            yield ('%s = %s' % (a, b), (lambda e, a=a, b=b: e[a] == e[b]), 'col-col-text')
            yield ('%s != %s' % (a, b), (lambda e, a=a, b=b: e[a] != e[b]), 'col-col-text')
        # ... also next to a wildcard literal that spells the name of an entry (what one clause compiled must not serve the other)
        for lit in ('?', '???', '*', '????', 'q.?', '*.txt', 'a*'):
            for gcol in ('name', 'ext'):
                for a, b in (('dir', 'name'), ('name', 'ext'), ('path', 'name'), ('name', 'dir')):
                    g = (lambda e, lit=lit, gcol=gcol: mt.glob_match(lit, e[gcol]))
                    yield ("%s = '%s' or %s = %s" % (gcol, lit, a, b), (lambda e, g=g, a=a, b=b: g(e) or e[a] == e[b]), 'col-col-beside-glob')
                    yield ("%s = %s or %s = '%s'" % (a, b, gcol, lit), (lambda e, g=g, a=a, b=b: g(e) or e[a] == e[b]), 'col-col-beside-glob')
                    yield ("%s != '%s' and %s != %s" % (gcol, lit, a, b), (lambda e, g=g, a=a, b=b: (not g(e)) and e[a] != e[b]), 'col-col-beside-glob')
        # a wildcard literal and the regular expression that spells what it means, side by side: LIKE and wildcard = ignore letter case,
        # rx does not (each comparison keeps its own meaning whichever is evaluated first)
        import re as _re
        for wl, rx, op in (('name%', '^name.*$', 'like'), ('nam_', '^nam.$', 'like'), ('name*', '^name.*$', '='), ('siz?', '^siz.$', '='), ('%.txt', '^.*\\.txt$', 'like'),
                           ('a.bin', '^a\\.bin$', 'like'), ('true', '^true$', 'like'), ('NAME%', '^NAME.*$', 'like'), ('*.TXT', '^.*\\.TXT$', '=')):
            w = (lambda e, wl=wl, op=op: mt.like_match(wl, e['name']) if op == 'like' else mt.glob_match(wl, e['name']))
            x = (lambda e, rx=rx: _re.search(rx.replace('\\\\', '\\'), e['name']) is not None)
            lw, lx = "name %s '%s'" % (op, wl), "name rx '%s'" % rx
            yield ('%s and %s' % (lw, lx), (lambda e, w=w, x=x: w(e) and x(e)), 'wildcard-beside-its-regex')
            yield ('%s and %s' % (lx, lw), (lambda e, w=w, x=x: w(e) and x(e)), 'wildcard-beside-its-regex')
            yield ('%s or %s' % (lx, lw), (lambda e, w=w, x=x: w(e) or x(e)), 'wildcard-beside-its-regex')
            yield ('%s or %s' % (lw, lx), (lambda e, w=w, x=x: w(e) or x(e)), 'wildcard-beside-its-regex')
            yield ('%s and not %s' % (lw, lx), (lambda e, w=w, x=x: w(e) and not x(e)), 'wildcard-beside-its-regex')
            yield ('not %s and %s' % (lx, lw), (lambda e, w=w, x=x: w(e) and not x(e)), 'wildcard-beside-its-regex')
    elif kind == 'colcol':
        pairs = [('size', 'hardlinks'), ('uid', 'gid'), ('size', 'length(name)'), ('hardlinks', 'length(name)'), ('gid', 'size')]
        for a, b in pairs:
            for op in ('eq', 'ne', 'gt', 'ge', 'lt', 'le'):
                yield ('%s %s %s' % (a, OPSETS[op][0], b), (lambda e, a=a, b=b, op=op: num_cmp(op, e[a], e[b])), 'col-col-num')
        yield ('size between hardlinks and length(name)', (lambda e: e['hardlinks'] <= e['size'] <= e['length(name)']), 'col-col-between')
        for a, b in (('name', 'ext'), ('path', 'name'), ('dir', 'name')):
            yield ('%s === %s' % (a, b), (lambda e, a=a, b=b: e[a] == e[b]), 'col-col-text')
            yield ('%s !== %s' % (a, b), (lambda e, a=a, b=b: e[a] != e[b]), 'col-col-text')


def colspecs():
    for c in NUM:
        yield c, 'num'
    for c in TEXT:
        yield c, 'text'
    for c in BOOL:
        yield c, 'bool'
    yield 'modified', 'date'
    yield '*', 'colcol'
    yield '*', 'longpath'
    for c in CLASSCOLS:
        yield c, 'class'
    yield '*', 'extra'
    yield 'America/Havana', 'date2'
    yield 'Atlantic/Azores', 'date2'
    yield 'UTC', 'date2'
    yield 'America/St_Johns', 'date2'
    yield 'Australia/Lord_Howe', 'date2'


CLASSCOLS = ['is_archive', 'is_audio', 'is_book', 'is_doc', 'is_font', 'is_image', 'is_source', 'is_video']


def eval_class(env, group):
    """file-class columns (the name ends with one of the configured extensions) compared with a boolean literal, alone and behind
    conjuncts that fail for the first entries, under root options that make the walk itself look at extensions"""
    import re
    col = group['col']
    conf = open(env.config_path()).read()
    lists = {c: re.findall(r'"([^"]+)"', re.search(r'(?ms)^%s = \[(.*?)\]' % c, conf).group(1)) for c in CLASSCOLS}
    zips = re.findall(r'"([^"]+)"', re.search(r'(?ms)^is_zip_archive = \[(.*?)\]', conf).group(1))
    names = set()
    for lst in list(lists.values()) + [zips]:
        for e in lst[:6] + lst[-2:]:
            names |= {'f' + e, 'G' + e.upper(), 'x' + e[1:]}
    names |= {'x.tar.gz', 'app.jar', 'lib.war', 'e.ear', 'plain', 'a.zipx'}
    tree = {'aaa': D({n: F(1) for n in sorted(names)[::3]}), '000': D({})}
    tree.update({n: F(1) for n in names})
    root = env.newdir('c2c')
    core.materialise(root, tree)
    outs = []
    try:
        ents = entries(root)
        is_cls = lambda e: any(e['name'].lower().endswith(x.lower()) for x in lists[col])
        for opts in ('', 'archives', 'archives dfs', 'dfs', 'symlinks archives'):
            for pre, ppred in (('', lambda e: True), ('is_file = true and ', lambda e: e['is_file']), ("name like '%.%' and ", lambda e: '.' in e['name']),
                               ("path like './aaa/%' and ", lambda e: e['path'].startswith('./aaa/')), ("name != 'aaa' and name != '000' and ", lambda e: e['name'] not in ('aaa', '000'))):
                for lit, want in (('true', True), ('false', False), ('yes', True), ('0', False)):
                    cond = '%s%s = %s' % (pre, col, lit)
                    if group['only'] is not None and [opts, cond] != group['only']:
                        continue
                    q = 'path from . %s where %s into list' % (opts, cond)
                    o = env.run([q], cwd=root, preload=True, env={'FSX_READDIR': 'sorted'})     # the two directories arrive first
                    exp = sorted(e['path'] for e in ents if ppred(e) and is_cls(e) == want)
                    got = sorted(r_ for r_ in o.rows() if not r_.startswith('['))
                    r = {'case': {'variant': group['variant'], 'col': col, 'kind': 'class', 'cond': [opts, cond]}, 'nt': 0 < len(exp) < len(ents), 'layer': 'class',
                         'trans': len(ents)}
                    if o.timeout or o.rc != 0:
                        r.update(status='viol', cls='class:status', detail=dict(o.brief(), query=q), sig=('err', o.rc))
                    elif got != exp:
                        r.update(status='viol', cls='class:rows', sig=('rows', len(got)),
                                 detail={'query': q, 'missing': sorted(set(exp) - set(got))[:6], 'extra': sorted(set(got) - set(exp))[:6]})
                    else:
                        r.update(status='ok', sig=(len(exp),))
                    outs.append(r)
    finally:
        env.rmtree(root)
    return outs


def groups(tier, seed):
    for variant in ((0,) if tier == 'quick' else (0, 1)):
        for col, kind in colspecs():
            yield {'variant': variant, 'col': col, 'kind': kind, 'only': None}


def single(case):
    return {'variant': case['variant'], 'col': case['col'], 'kind': case['kind'], 'only': case['cond']}


def eval_longpath(env, group):
    """entries whose displayed path is at, just below and above PATH_MAX (their parent directory still fits):
    metadata columns must still be compared correctly"""
    root = env.newdir('c2lp')
    outs = []
    cwd0 = os.getcwd()
    try:
        os.chdir(root)
        for i in range(20):
            comp = chr(ord('a') + i) * 199
            os.mkdir(comp)
            os.chdir(comp)
        files = {}
        for n in (80, 90, 92, 93, 94, 95, 120, 200):
            name = 'lp' + 'x' * (n - 2)
            with open(name, 'wb') as f:
                f.write(b'z' * n)
            os.utime(name, (T0, T0 + n))
            files[name] = os.lstat(name)
        os.chdir(cwd0)
        conds = []
        for n in (80, 93, 94, 95, 200):
            conds += [('size = %d' % n, lambda st, n=n: st.st_size == n), ('size > %d' % n, lambda st, n=n: st.st_size > n),
                      ('size <= %d' % n, lambda st, n=n: st.st_size <= n), ("modified = '%s'" % fmt_date(T0 + n), lambda st, n=n: int(st.st_mtime) == T0 + n)]
        conds += [('is_file = true', lambda st: True), ('is_dir = false', lambda st: True), ('hardlinks = 1', lambda st: True), ('hardlinks > 1', lambda st: False),
                  ("mode = '-rw-r--r--'", lambda st: True), ('uid = 0', lambda st: True), ('user_read = true', lambda st: True), ('is_symlink = true', lambda st: False)]
        for cond, pred in conds:
            if group.get('only') is not None and cond != group['only']:
                continue
            q = 'name from . where %s into list' % cond
            o = env.run([q], cwd=root, timeout=20.0)
            got = sorted(r_ for r_ in o.rows() if r_.startswith('lp'))
            exp = sorted(n for n, st in files.items() if pred(st))
            r = {'case': {'variant': 0, 'col': '*', 'kind': 'longpath', 'cond': cond}, 'nt': True, 'layer': 'longpath', 'trans': len(files)}
            if o.timeout or o.panicked or o.rc not in (0, 1):
                r.update(status='viol', cls='longpath:status', detail=dict(o.brief(), query=q), sig=('err',))
            elif got != exp:
                r.update(status='viol', cls='longpath:rows', sig=('rows',), detail={'query': q, 'missing_name_lengths': [len(x) for x in exp if x not in got],
                                                                                   'extra_name_lengths': [len(x) for x in got if x not in exp]})
            else:
                r.update(status='ok', sig=(cond, len(exp)))
            outs.append(r)
    finally:
        os.chdir(cwd0)
        subprocess.run(['rm', '-rf', root])
    return outs


# the day on which local midnight occurs twice: Havana 2021-11-07 (01:00 CDT -> 00:00 CST = 05:00Z), Azores 2021-10-31 (01:00 -> 00:00 = 01:00Z)
# (the last two: zones whose offset changes in the middle of a UTC hour)
DATE2 = {'America/Havana': 1636261200, 'Atlantic/Azores': 1635642000, 'UTC': 1636261200, 'America/St_Johns': 1710048600, 'Australia/Lord_Howe': 1728142200}


def eval_date2(env, group):
    """`modified` compared twice in one WHERE (BETWEEN and its spelled-out forms), mtimes around a repeated local midnight"""
    import datetime
    import zoneinfo
    zone = group['col']
    z = zoneinfo.ZoneInfo(zone)
    t0 = DATE2[zone]
    offs = [-86400 - 3600, -5400, -3600, -1800, -1, 0, 1, 1800, 3599, 3600, 5400, 86400 + 3600]
    root = env.newdir('c2d')
    core.materialise(root, {'m%02d' % i: F(1, mtime=t0 + o) for i, o in enumerate(offs)})
    times = {'./m%02d' % i: t0 + o for i, o in enumerate(offs)}

    def lit(ts):
        d = datetime.datetime.fromtimestamp(ts, z)
        back = d.replace(tzinfo=None)
        # only literals that name one instant (both folds agree) are written
        a = back.replace(tzinfo=z, fold=0).timestamp()
        b = back.replace(tzinfo=z, fold=1).timestamp()
        return back.strftime('%Y-%m-%d %H:%M:%S') if a == b == ts else None
    outs = []
    try:
        bounds_ = [t0 - 86400 - 3600, t0 - 86400, t0 - 3 * 3600, t0 + 3 * 3600, t0 + 86400, t0 + 86400 + 3600]
        if zone in ('America/St_Johns', 'Australia/Lord_Howe'):
            bounds_ += [t0 - 1200, t0 + 1200, t0 - 2, t0, t0 + 2]
        conds = []
        for a, b in itertools.combinations(bounds_, 2):
            la, lb = lit(a), lit(b)
            if la is None or lb is None:
                continue
            conds += [("modified between '%s' and '%s'" % (la, lb), lambda t, a=a, b=b: a <= t <= b),
                      ("modified >= '%s' and modified <= '%s'" % (la, lb), lambda t, a=a, b=b: a <= t <= b),
                      ("modified > '%s' and not modified > '%s'" % (la, lb), lambda t, a=a, b=b: a < t <= b),
                      ("modified < '%s' or modified > '%s'" % (la, lb), lambda t, a=a, b=b: t < a or t > b),
                      ("modified not between '%s' and '%s'" % (la, lb), lambda t, a=a, b=b: not a <= t <= b),
                      ("modified >= '%s'" % la, lambda t, a=a: t >= a)]
        for cond, pred in conds:
            if group['only'] is not None and cond != group['only']:
                continue
            q = 'path from . where %s into list' % cond
            # (the files arrive in the order of their time stamps: each is looked at right after its neighbour on the other side of the change)
            o = env.run([q], cwd=root, preload=True, env={'TZ': zone, 'FSX_READDIR': 'sorted'})
            exp = sorted(p_ for p_, t in times.items() if pred(t))
            r = {'case': {'variant': group['variant'], 'col': zone, 'kind': 'date2', 'cond': cond}, 'nt': 0 < len(exp) < len(times),
                 'layer': 'date2', 'trans': len(times)}
            rows = o.rows()
            if o.timeout or o.rc != 0 or o.err:
                r.update(status='viol', cls='date-twice:status', detail=dict(o.brief(), query=q, tz=zone), sig=('err', o.rc))
            elif sorted(rows) != exp:
                got = set(rows)
                r.update(status='viol', cls='date-twice:rows', sig=('rows', tuple(sorted(got))),
                         detail={'query': q, 'tz': zone, 'missing': sorted(set(exp) - got)[:6], 'extra': sorted(got - set(exp))[:6]})
            else:
                r.update(status='ok', sig=tuple(exp))
            outs.append(r)
    finally:
        env.rmtree(root)
    return outs


def eval_group(env, group, tier):
    if group['kind'] == 'longpath':
        return eval_longpath(env, group) if group['variant'] == 0 else []
    if group['kind'] == 'class':
        return eval_class(env, group) if group['variant'] == 0 else []
    if group['kind'] == 'date2':
        return eval_date2(env, group) if group['variant'] == 0 else []
    root = env.newdir('c2')
    core.materialise(root, the_tree(group['variant']))
    col, kind = group['col'], group['kind']
    outs = []
    try:
        sub = 'lc' if col == 'line_count' else '.'
        if col == 'line_count' and group['variant'] == 1:
            return []
        ents = entries(root, sub)
        o = env.run(['path from %s into list' % sub], cwd=root)
        if sorted(o.rows()) != sorted(e['path'] for e in ents):
            raise core.MachineryError('C02 model/universe mismatch %r' % o.brief())
        for cond, pred, cls in gen_cases(col, kind, ents, tier):
            if group['only'] is not None and cond != group['only']:
                continue
            q = 'path from %s where %s into list' % (sub, cond)
            o = env.run([q], cwd=root)
            exp = sorted(e['path'] for e in ents if pred(e))
            case = {'variant': group['variant'], 'col': col, 'kind': kind, 'cond': cond}
            r = {'case': case, 'nt': 0 < len(exp) < len(ents), 'layer': kind, 'trans': len(ents)}
            rows = o.rows()
            if o.timeout or o.rc != 0 or o.err:
                r.update(status='viol', cls=cls + ':status', detail=dict(o.brief(), query=q), sig=('err', o.rc))
            elif sorted(rows) != exp:
                got = set(rows)
                r.update(status='viol', cls=cls + ':rows', sig=('rows', tuple(sorted(got))),
                         detail={'query': q, 'missing': sorted(set(exp) - got)[:6], 'extra': sorted(got - set(exp))[:6]})
            else:
                r.update(status='ok', sig=tuple(exp))
            outs.append(r)
    finally:
        env.rmtree(root)
    return outs
