"""C11 Documented alternative spellings of a query denote the same query.

For every base query the rendering lattice is explored completely: whitespace split sets,
letter case of word tokens, every documented alias one at a time, bracket style, optional
tokens.  Oracle is differential: the parsed Query printed by the code's own `debug = true`
switch must be textually identical to the base rendering's, and so must rows and status.
"""
import itertools
import re

from fsx import core
from fsx import corpus

ID = 'C11'
LEVEL = 'model_checking'
USES_BATCH = True
RULE = ('~230 valid base queries covering every clause and every alias family x renderings: every subset of whitespace '
        'split points when the query has <= 9 words (else all single and double split points, fully split and fully '
        'joined), case variants {lower, UPPER, Capitalised} of each word token one at a time and all at once, the fully re-cased query again under every split set, every alias '
        'of every documented table substituted one occurrence at a time (thorough: all pairs), round<->curly brackets (all at once, and every single pair and every two pairs on their own, so that styles are mixed and nested), '
        'leading select, optional commas, explicit asc, () after an argument-less function; non-trivial = rendering differs '
        'textually from the base')
MC_NOTE = ('state = one rendering of a base query; the rendering lattice of each base query is explored completely; '
           'transitions = single rewriting steps from the base; every state is run on the real lexer/parser/searcher')
ASSUMPTIONS = ['the parsed Query is observed through the configuration switch debug = true (stderr)',
               'rows are compared as sorted lines (same tree, same process settings)',
               'literals and paths are never case-changed; RANDOM is excluded (non-deterministic)',
               'a shell word that starts with a search root denotes that root only (paths with spaces): split renderings never '
               'continue such a word with further tokens']
BUDGET = {'quick': 55, 'thorough': 1500}

OP_ALIASES = [['=', '==', 'eq'], ['!=', '<>', 'ne'], ['===', 'eeq'], ['!==', 'ene'], ['>', 'gt'], ['>=', 'gte', 'ge'], ['<', 'lt'],
              ['<=', 'lte', 'le'], ['=~', '~=', 'regexp', 'rx'], ['!=~', '!~=', 'notrx'], ['notlike', 'not like']]
ARITH_ALIASES = [['+', 'plus'], ['-', 'minus'], ['*', 'mul'], ['/', 'div'], ['%', 'mod']]
COL_ALIASES = [['ext', 'extension'], ['dir', 'dirname', 'directory'], ['fsize', 'hsize'], ['is_pipe', 'is_fifo'],
               ['is_char', 'is_character'], ['capabilities', 'caps'], ['sha2_256', 'sha256'], ['sha2_512', 'sha512'],
               ['sha3_512', 'sha3'], ['mp3_title', 'title'], ['mp3_album', 'album'], ['mp3_artist', 'artist'],
               ['mp3_genre', 'genre'], ['mp3_freq', 'freq'], ['mp3_bitrate', 'bitrate'], ['exif_altitude', 'exif_alt'],
               ['exif_latitude', 'exif_lat'], ['exif_longitude', 'exif_lng', 'exif_lon']]
FUNC_ALIASES = [['lower', 'lowercase', 'lcase'], ['upper', 'uppercase', 'ucase'], ['length', 'len'], ['to_base64', 'base64'],
                ['substring', 'substr'], ['power', 'pow'], ['format_time', 'pretty_time'], ['current_date', 'cur_date', 'curdate'],
                ['dow', 'dayofweek'], ['stddev_pop', 'stddev', 'std'], ['var_pop', 'variance'], ['has_capabilities', 'has_caps'],
                ['has_capability', 'has_cap'], ['contains_japanese', 'japanese'], ['contains_kana', 'kana'],
                ['contains_hiragana', 'hiragana'], ['contains_katakana', 'katakana'], ['contains_kanji', 'kanji']]
OPT_ALIASES = [['maxdepth', 'depth'], ['symlinks', 'sym'], ['archives', 'arc'], ['gitignore', 'git'], ['hgignore', 'hg'],
               ['dockerignore', 'dock'], ['nogitignore', 'nogit'], ['nohgignore', 'nohg'], ['nodockerignore', 'nodock'],
               ['regexp', 'rx']]
KEYWORDS = {'select', 'from', 'where', 'and', 'or', 'not', 'order', 'by', 'group', 'limit', 'into', 'desc', 'asc', 'between', 'like',
            'mindepth', 'bfs', 'dfs', 'json', 'csv', 'html', 'tabs', 'lines', 'list'}
PLAIN_COLS = {'name', 'path', 'size', 'is_dir', 'is_file', 'modified', 'uid', 'gid', 'mode', 'hardlinks', 'is_symlink', 'abspath',
              'user', 'group', 'is_hidden', 'has_xattrs', 'line_count', 'is_shebang', 'is_empty'}

EXTRA = [
    'name , ext , dir , fsize from . limit 3', 'name , is_pipe , is_char , capabilities from . where size > 1',
    'name , sha2_256 , sha2_512 , sha3_512 from . where ext = txt', 'name , mp3_title , mp3_album , mp3_artist , mp3_genre , mp3_freq , mp3_bitrate from sub',
    'name , exif_altitude , exif_latitude , exif_longitude from sub', 'name where size >= 1 and size <= 10', 'name where size != 1 and name !== c',
    'name where name === c or name !=~ ^a', 'name where name notlike %.txt', 'name where name like %.txt and size < 5',
    'name , size + 1 , size - 1 , size * 2 , size / 2 , size % 2 from .', 'name , length(name) , to_base64(name) , substring(name, 1, 2) from .',
    'name , power(size, 2) , format_time(size) from .', 'name , dow(modified) , current_date from . limit 1',
    'stddev_pop(size) , var_pop(size) from .', 'name , has_capabilities() , has_capability(cap_bpf) from .',
    'name , contains_japanese(name) , contains_kana(name) , contains_hiragana(name) , contains_katakana(name) , contains_kanji(name) from .',
    'name from . symlinks', 'name from . archives', 'name from . gitignore', 'name from . hgignore', 'name from . dockerignore',
    'name from . nogitignore nohgignore nodockerignore', 'name from . maxdepth 2 mindepth 1', 'name , current_uid from . limit 1',
    'name from . where ( size > 1 and ( name = a.txt or ext = rs ) )', 'name from . order by size desc , name limit 4',
    'name , upper(name) , lower(ext) from . where length(name) > 3', 'name where size gt 1 order by 1',
    'ext , lower(ext) , count(*) from . group by ext , lower(ext) order by 1', 'is_dir , ext , size , count(*) from . group by is_dir , ext , size order by 2',
    'lower(ext) , length(name) , count(*) from . group by lower(ext) , length(name) order by 1 , 2',
    'name , size from sub , e order by size desc , name', 'ext , count(*) from . , sub group by ext order by ext',
    'name , year(curdate()) , length(upper(name)) from . limit 2', 'name , concat(curdate() , name) from . limit 2',
    'name from . where ( length(lower(name)) > 3 and ( size > 1 or year(curdate()) > 2000 ) )',
    # words that are also command-line options, inside a query (a literal, a column, a root, a leading minus)
    'name from . where name = help.txt or name like %version% or name != nocolor', 'name , exif_version from sub limit 2',
    '-hardlinks , name from . limit 3', '-inode , name from sub', "name from . where name = 'no-color' or name = '--help'",
    # operators in GROUP BY / ORDER BY keys of a query without WHERE
    'count(*) from . group by size % 2', 'size * 2 , count(*) from . group by size * 2 order by 1', 'name from . order by size + 1 , name',
    'count(*) from sub group by size > 3', 'name from . order by size = 4 , name limit 5', 'name from sub order by size mod 3 desc , name',
    # a sign written as its own token (and so as a word), negated operators outside WHERE, count with blanks in its bracket
    'name from . where 0 - size < - 2', 'name from . order by - size , name limit 3', 'name , abs( - 5 ) from . limit 2', 'size , abs( + size ) from . limit 2',
    'name from . order by name notlike %t desc , name', 'name , name notlike a% from . order by name', 'count(*) from . group by name notrx t order by 1',
    'name from . order by size != 4 , name limit 5',
    # root options of the default root (no FROM), the first option in every spelling
    'name symlinks', 'name , size archives', 'name gitignore depth 2', 'name hgignore', 'name dockerignore dfs', 'name depth 2', 'name mindepth 1 maxdepth 2',
    'name dfs', 'name nogitignore symlinks', 'name , size symlinks where size > 1 order by 1',
    'name dock', 'name nodock symlinks', 'name , size git', 'name hg depth 2', 'name nogit', 'name nohg dfs', 'name arc', 'name sym',
    # an argument-less function (with or without its empty brackets) as the operand of every arithmetic operator
    'name , current_uid * 0 from . limit 2', 'name , current_gid % 1 , current_uid / 1 from . limit 2', 'name from . where current_uid * 0 = 0 limit 2',
    'name , current_uid + 1 , current_uid - 1 from . limit 2', 'name from . order by current_uid * 0 , name limit 2',
    # ... and written without brackets as the argument of another call (every bracket style of the outer call)
    'name , year(curdate) from . limit 2', 'name , concat(curdate , name) , length(upper(current_user)) from . limit 2', 'name from . where year(modified) le year(curdate) limit 2',
    'name , upper(concat(name , current_uid)) from . limit 2', 'count(*) from . group by year(curdate) + 1',
    # a window whose upper bound is below its lower bound, in both orders (the alias means the same bound)
    'name from . mindepth 2 maxdepth 1', 'name from . mindepth 3 maxdepth 2 dfs', 'name from sub maxdepth 1 mindepth 2 , e mindepth 2 maxdepth 1', 'name mindepth 2 maxdepth 1',
    'name from su.* regexp', 'name from [s]ub maxdepth 1 regexp', 'name , size from e , su.* regexp dfs where name regexp ^a order by 1',
]


def bounds(tier):
    return {'base_queries': len(bases()), 'split_all_subsets_up_to_words': 9, 'alias_pairs': tier == 'thorough'}


# token lists whose quoted literals contain blanks (single ones and runs): the shell may split there too
LITSPACE = [
    ['name', 'from', '.', 'where', 'name', '=', "'a  b.txt'"],
    ['name', 'from', '.', 'where', 'name', 'like', "'% %'", 'or', 'name', '===', '"c d   e"'],
    ['name', ',', "concat(name, '  x ')", 'from', '.', 'limit', '2'],
    ['name', 'from', '.', 'where', 'name', '=', "' lead'", 'or', 'name', '=', "'trail  '"],
]


def bases():
    qs = [q for q in corpus.queries()]
    qs += [e.split(' ') for e in EXTRA]
    qs += LITSPACE
    # tokens are shell words; normalise attached commas so that word boundaries are whitespace only
    return qs


def word_kind(tok):
    t = tok.lower()
    core_ = re.sub(r'[(){},]+$', '', re.sub(r'^[({]+', '', t))
    if t in KEYWORDS:
        return 'kw'
    if any(t in fam for fam in OP_ALIASES + ARITH_ALIASES) and t.isalpha():
        return 'opword'
    if any(t in fam for fam in OPT_ALIASES):
        return 'opt'
    if re.fullmatch(r'[a-z_0-9]+[({].*', t):
        return 'func'
    if core_ in PLAIN_COLS or any(core_ in fam for fam in COL_ALIASES):
        return 'col'
    if any(core_ in fam for fam in FUNC_ALIASES) or core_ in ('current_uid', 'current_user'):
        return 'func'
    return None


def split_renderings(q, tier):
    n = len(q)
    if n <= 9:
        sets = []
        for r in range(n):
            sets.extend(itertools.combinations(range(1, n), r))
    else:
        sets = [()] + [(i,) for i in range(1, n)] + list(itertools.combinations(range(1, n), 2)) + [tuple(range(1, n))]
        if tier == 'quick' and len(sets) > 120:
            sets = sets[:1] + sets[1:n] + sets[n::max(1, len(sets) // 100)] + [tuple(range(1, n))]
    # a shell word that STARTS with a search root denotes that root only (fselect's rule for paths
    # with spaces), so a rendering may not continue such a word with further tokens
    rootpos, inr = set(), False
    for i, t in enumerate(q):
        tl = t.lower()
        if tl == 'from':
            inr = True
            rootpos.add(i + 1)
        elif tl in ('where', 'order', 'group', 'limit', 'into'):
            inr = False
        elif inr and t == ',':
            rootpos.add(i + 1)
    for s in sets:
        starts = {0} | set(s)
        if any(p in starts and (p + 1) < n and (p + 1) not in starts for p in rootpos):
            continue
        parts, cur = [], [q[0]]
        for i in range(1, n):
            if i in s:
                parts.append(' '.join(cur))
                cur = [q[i]]
            else:
                cur.append(q[i])
        parts.append(' '.join(cur))
        yield parts, 'split'
    # the way lists are usually typed: the comma glued to the word before it (`from lib, lib64`, `name, size`)
    if ',' in q[1:]:
        g = []
        for t in q:
            if t == ',' and g:
                g[-1] += ','
            else:
                g.append(t)
        yield list(g), 'split-glued-comma'
        yield [' '.join(g)], 'glued-comma'
        groot, inr = set(), False
        for i, t in enumerate(g):
            tl = t.lower()
            if tl == 'from':
                inr = True
                groot.add(i + 1)
            elif tl in ('where', 'order', 'group', 'limit', 'into'):
                inr = False
            elif inr and t.endswith(','):
                groot.add(i + 1)
        for i in range(1, len(g)):
            if i in groot and i + 1 < len(g):
                continue        # a word that starts with a root and goes on (see above)
            yield [' '.join(g[:i]), ' '.join(g[i:])], 'split-glued-comma'


def sub_ident(tok, old, new):
    """replace identifier `old` inside token by `new` (whole identifier only)"""
    return re.sub(r'(?<![A-Za-z0-9_])%s(?![A-Za-z0-9_])' % re.escape(old), new, tok, flags=re.I)


def alias_renderings(q, tier):
    fams = OP_ALIASES + ARITH_ALIASES + COL_ALIASES + FUNC_ALIASES + OPT_ALIASES
    subs = []   # (position, new token list replacing q[pos:pos+k], k)
    in_from = False
    no_from = 'from' not in [t_.lower() for t_ in q]
    closed = False
    for i, tok in enumerate(q):
        t = tok.lower()
        if t == 'from':
            in_from = True
        elif t in ('where', 'order', 'group', 'limit', 'into'):
            in_from = False
            closed = True
        elif no_from and not closed and i > 0 and (any(t in fam for fam in OPT_ALIASES[:-1]) or t in ('mindepth', 'bfs', 'dfs')):
            in_from = True      # the options of the default root begin where the select list ends
        for fam in fams:
            for a in fam:
                if ' ' in a:
                    aw = a.split(' ')
                    if [x.lower() for x in q[i:i + len(aw)]] == aw:
                        for b in fam:
                            if b != a:
                                subs.append((i, b.split(' '), len(aw)))
                    continue
                is_sym = not a[0].isalnum()
                hit = (t == a) if (is_sym or fam in OP_ALIASES + ARITH_ALIASES + OPT_ALIASES) else bool(
                    re.search(r'(?<![a-z0-9_])%s(?![a-z0-9_])' % re.escape(a), t))
                if not hit:
                    continue
                if fam in OPT_ALIASES and not in_from:
                    continue
                if fam in OP_ALIASES and in_from:
                    continue
                if fam in ARITH_ALIASES and (in_from or t in ('*',) and i > 0 and q[i - 1].lower() in ('select',)):
                    continue
                if fam in COL_ALIASES + FUNC_ALIASES and in_from:
                    continue
                for b in fam:
                    if b == a:
                        continue
                    new = b.split(' ') if (is_sym or fam in OP_ALIASES + ARITH_ALIASES + OPT_ALIASES) else [sub_ident(tok, a, b)]
                    subs.append((i, new, 1))
    for (i, new, k) in subs:
        yield [' '.join(q[:i] + new + q[i + k:])], 'alias'
        yield q[:i] + new + q[i + k:], 'alias'
    if tier == 'thorough':
        for (i, n1, k1), (j, n2, k2) in itertools.combinations(subs, 2):
            if i + k1 <= j:
                yield [' '.join(q[:i] + n1 + q[i + k1:j] + n2 + q[j + k2:])], 'alias-pair'


def recase(tok, f):
    """change the case of the word part of a token: for a function call only the function name
    (arguments may be literals)"""
    m = re.match(r'^([A-Za-z_0-9]+)([({].*)$', tok)
    if m:
        inner = m.group(2)
        # a plain column as the sole argument is a word too
        m2 = re.match(r'^([({])([a-z_]+)([)}],?)$', inner)
        if m2 and (m2.group(2) in PLAIN_COLS or any(m2.group(2) in fam for fam in COL_ALIASES)):
            inner = m2.group(1) + f(m2.group(2)) + m2.group(3)
        return f(m.group(1)) + inner
    return f(tok)


def case_renderings(q):
    idx = [i for i, t in enumerate(q) if word_kind(t)]
    _up, _cap = (lambda t: recase(t, str.upper)), (lambda t: recase(t, str.capitalize))
    for i in idx:
        for f in (_up, _cap):
            v = f(q[i])
            if v != q[i]:
                yield [' '.join(q[:i] + [v] + q[i + 1:])], 'case'
    for f in (_up, _cap):
        yield [' '.join(f(t) if i in idx else t for i, t in enumerate(q))], 'case-all'
        yield [f(t) if i in idx else t for i, t in enumerate(q)], 'case-all'


def optional_renderings(q):
    s = ' '.join(q)
    if '(' in s:
        yield [s.replace('(', '{').replace(')', '}')], 'curly'
        yield [t.replace('(', '{').replace(')', '}') for t in q], 'curly'
    if '{' in s:
        yield [s.replace('{', '(').replace('}', ')')], 'round'
    # every single bracket pair switched to the other style on its own (styles may be mixed and nested)
    stack, pairs_ = [], []
    for i, ch in enumerate(s):
        if ch in '({':
            stack.append(i)
        elif ch in ')}' and stack:
            pairs_.append((stack.pop(), i))
    for a, b_ in pairs_:
        oc = '{}' if s[a] == '(' else '()'
        yield [s[:a] + oc[0] + s[a + 1:b_] + oc[1] + s[b_ + 1:]], 'mixed-brackets'
    for (a, b_), (c_, d_) in itertools.combinations(pairs_, 2):
        t = list(s)
        for x, y in ((a, b_), (c_, d_)):
            oc = '{}' if s[x] == '(' else '()'
            t[x], t[y] = oc[0], oc[1]
        yield [''.join(t)], 'mixed-brackets'
    if q[0].lower() == 'select':
        yield [' '.join(q[1:])], 'select'
        yield q[1:], 'select'
    else:
        yield ['select ' + s], 'select'
        yield ['select'] + q, 'select'
        yield ['SELECT ' + s], 'select'
    # commas between columns / order keys are optional
    stop = next((i for i, t in enumerate(q) if t.lower() in ('from', 'where', 'group', 'order', 'limit', 'into')), len(q))
    head, depth = [], 0
    for t in q[:stop]:
        if t == ',' and depth == 0:
            continue        # only the commas between columns are optional, not those between function arguments
        depth += sum(t.count(ch) for ch in '({') - sum(t.count(ch) for ch in ')}')
        head.append(t)
    if len(head) != stop:
        yield [' '.join(head + q[stop:])], 'commas'
        yield head + q[stop:], 'commas'
    if 'order' in [t.lower() for t in q]:
        oi = [t.lower() for t in q].index('order')
        tail = q[oi:]
        end = next((i for i, t in enumerate(tail) if t.lower() in ('limit', 'into')), len(tail))
        keys = tail[2:end]
        new, i = [], 0
        while i < len(keys):
            new.append(keys[i])
            nxt = keys[i + 1].lower() if i + 1 < len(keys) else ''
            if keys[i] != ',' and nxt != 'desc' and keys[i].lower() not in ('desc', 'asc') and (nxt in (',', '') or True) and \
                    (i + 1 == len(keys) or keys[i + 1] == ','):
                new.append('asc')
            i += 1
        if new != keys:
            yield [' '.join(q[:oi] + tail[:2] + new + tail[end:])], 'asc'
    for fn in ('current_date', 'cur_date', 'curdate', 'current_uid', 'current_user', 'current_gid', 'current_group'):
        for i, t in enumerate(q):
            if t.lower() == fn:
                for br in ('()', '{}', '( )', '{ }'):
                    yield [' '.join(q[:i] + [t + br] + q[i + 1:])], 'noarg-brackets'
                    yield q[:i] + [t + br] + q[i + 1:], 'noarg-brackets'
                    if i + 2 < len(q) and not q[i + 1][0].isalnum() and q[i + 1] != ',':
                        # the operator glued to the closing bracket and to its right operand
                        yield [' '.join(q[:i] + [t + br + q[i + 1] + q[i + 2]] + q[i + 3:])], 'noarg-brackets'
            if t.lower() == fn + '()':
                yield [' '.join(q[:i] + [t[:-2]] + q[i + 1:])], 'noarg-brackets'


def groups(tier, seed):
    for bi, q in enumerate(bases()):
        yield {'base': bi, 'only': None}


def single(case):
    return {'base': case['base'], 'only': case['argv']}


def get_batch(env):
    b = getattr(env, '_c11', None)
    if b is None:
        root = env.newdir('c11')
        core.materialise(root, corpus.corpus_tree())
        conf = open(env.config_path()).read()
        conf = re.sub(r'(?m)^debug\s*=.*$', '', conf)
        env.set_config('debug = true\n' + conf)
        batch = core.Batch(env, root) if env.hooks else None
        b = env._c11 = {'root': root, 'batch': batch}
        env._batch = batch
    return b


def observe(env, b, argv, cli=False):
    if b['batch'] is not None and not cli:
        o = b['batch'].run(argv, timeout=10.0)
    else:
        o = env.run(argv, cwd=b['root'])
    err = o.err.decode('utf-8', 'replace')
    i = err.rfind('] &query = ')
    parsed = err[i:] if i >= 0 else err
    parsed = re.sub(r'(?m)^(Search|Compute): \d+ms\n?', '', parsed)
    parsed = re.sub(r'^\] &query = ', '', parsed)
    return o, parsed.strip(), sorted(o.out.split(b'\n'))


def eval_group(env, group, tier):
    b = get_batch(env)
    q = bases()[group['base']]
    base_argv = [' '.join(q)]
    only = group.get('only')
    cli = only is not None
    # queries that contain the letters of a command-line option are observed through the real command line (the batch
    # path enters below main's option handling)
    if re.search(r'help|version|nocolor|no-color', base_argv[0], re.I) or base_argv[0].startswith('-'):
        cli = True
    o0, p0, rows0 = observe(env, b, base_argv, cli)
    outs = []
    agg = {'cases': 0, 'nt': 0, 'sigs': set(), 'trans': 0, 'layer': 'renderings', 'samples': []}
    if o0.rc != 0 or 'Ok(' not in p0:
        return [{'case': {'base': group['base'], 'argv': base_argv}, 'status': 'viol', 'cls': 'base-query-rejected',
                 'detail': dict(o0.brief(), argv=base_argv), 'nt': True, 'sig': ('base',)}]
    seen = set()
    # letter case combined with every split set: the UPPER-cased and Capitalised query under all its splits
    def cased_splits():
        idx = [i for i, t in enumerate(q) if word_kind(t)]
        for f in (str.upper, str.capitalize):
            q2 = [recase(t, f) if i in idx else t for i, t in enumerate(q)]
            for parts, _ in split_renderings(q2, tier):
                yield parts, 'case+split'
    def literal_splits():
        # every token its own shell word, and in addition split points inside a quoted literal: every blank alone,
        # every pair of blanks, and all blanks at once (two adjacent split points produce an empty shell word)
        for ti, tok in enumerate(q):
            pos = [i for i, ch in enumerate(tok) if ch == ' ']
            if not pos or tok[0] not in '\'"`' and '(' not in tok:
                continue
            sets = [(p_,) for p_ in pos] + list(itertools.combinations(pos, 2)) + [tuple(pos)]
            for ps in sets:
                parts, last = [], 0
                for p_ in ps:
                    parts.append(tok[last:p_])
                    last = p_ + 1
                parts.append(tok[last:])
                yield q[:ti] + parts + q[ti + 1:], 'split-inside-literal'
    gens = itertools.chain(split_renderings(q, tier), alias_renderings(q, tier), case_renderings(q), optional_renderings(q), cased_splits(),
                           literal_splits() if q in LITSPACE else ())
    n = 0
    for argv, kind in gens:
        key = '\x1f'.join(argv)
        if key in seen or argv == base_argv:
            continue
        seen.add(key)
        if only is not None and argv != only:
            continue
        n += 1
        o, p, rows = observe(env, b, argv, cli)
        case = {'base': group['base'], 'argv': argv, 'kind': kind, 'base_query': base_argv[0]}
        cls = None
        if o.timeout or o.rc != o0.rc:
            cls = kind + ':status'
            detail = dict(o.brief(), argv=argv)
        elif p != p0:
            cls = kind + ':parsed-query-differs'
            import difflib
            d = [l for l in difflib.unified_diff(p0.splitlines(), p.splitlines(), lineterm='', n=1)][:14]
            detail = {'argv': argv, 'base': base_argv[0], 'diff': d}
        elif rows != rows0:
            cls = kind + ':rows-differ'
            detail = {'argv': argv, 'base': base_argv[0]}
        if cls:
            outs.append({'case': case, 'status': 'viol', 'cls': cls, 'detail': detail, 'nt': True, 'sig': ('viol', cls), 'layer': kind})
        else:
            agg['cases'] += 1
            agg['nt'] += 1
            agg['trans'] += 1
            agg['sigs'].add((group['base'], o.rc))
            if len(agg['samples']) < 2 and n % 17 == 1:
                agg['samples'].append({'case': case})
            if b['batch'] is not None and not cli and n % 97 == 0:
                o2, p2, rows2 = observe(env, b, argv, cli=True)
                if (o2.rc, p2, rows2) != (o.rc, p, rows):
                    raise core.MachineryError('transport disagreement on %r' % (argv,))
    if agg['cases']:
        agg['sigs'] = list(agg['sigs'])
        outs.append({'agg': agg})
    return outs
