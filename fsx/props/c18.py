"""C18 Following symlinks finds what is behind them, once, and always terminates."""
import copy
import itertools
import os

from fsx import core
from fsx.core import D, F, L

ID = 'C18'
LEVEL = 'model_checking'
RULE = ('every base tree with <= E entries and <= 3 directories plus depth-4 chains, decorated with one link in every '
        'directory position x every target {directory beside the link, the link\'s own directory, its parent, the root, the '
        'link itself, a directory outside the root, directories above the root, a file, nothing (dangling), another link, chains link->link->dir and link->link->link->dir whose final directory is reachable in no other way} x '
        '{absolute, relative-to-link-directory} spelling, and every pair of links of the cyclic families (mutual pair, chain, '
        'ancestor + sibling); x root in {., relative, absolute, cwd one level above the root, a regular-expression root} x {bfs, dfs} x windows {none, '
        'maxdepth 1..3} x symlinks on/off x readdir order {sorted, reversed}; non-trivial = following the link changes the '
        'expected rows')
MC_NOTE = ('state = (decorated tree, root spelling, mode, window, option, readdir order); the model walks the real directory '
           'graph (each real directory once); transitions = directory entries compared')
ASSUMPTIONS = ['rows are compared as (real parent directory, name) pairs, so the spelling of a path reached through a link is free',
               'with a depth window only trees in which every reachable directory has a single route are generated',
               'horizon 10 s per run']
BUDGET = {'quick': 55, 'thorough': 2400}


def bounds(tier):
    return {'base_entries_max': 4 if tier == 'quick' else 5, 'dirs_max': 3, 'chain_depth': 4}


def base_trees(tier):
    E = 4 if tier == 'quick' else 5
    for sh in core.tree_shapes(E):
        t = name_tree(sh)
        nd = sum(1 for _, n, _ in core.walk_tree(t) if n['t'] == 'd')
        if 1 <= nd <= 3:
            yield t
    yield {'c1': D({'c2': D({'c3': D({'c4': D({'deep': F(1)})})})})}
    yield {'c1': D({'c2': D({'c3': D({'f': F(1)}), 'g': F(1)}), 'h': F(1)}), 'x': D({})}


def name_tree(shape):
    """unique names over the whole tree"""
    cnt = [0]

    def rec(forest):
        t = {}
        for node in forest:
            cnt[0] += 1
            k = cnt[0]
            if node == 'f':
                t['f%d' % k] = F(1)
            else:
                sub = rec(node)
                t['d%d' % k] = D(sub)
        return t
    return rec(shape)


def dirs_of(tree):
    """relative paths of directories incl. the root ('')"""
    return [''] + [p for p, n, _ in core.walk_tree(tree) if n['t'] == 'd']


def subtree(tree, rel):
    cur = tree
    if rel:
        for part in rel.split('/'):
            cur = cur[part]['c']
    return cur


TARGETS = ['beside', 'owndir', 'parent', 'root', 'self', 'outside', 'above1', 'above2', 'file', 'dangling', 'chain', 'chain2', 'chain3', 'enotdir',
           'prefixsib', 'prefixsib-rev']


def decorate(tree, ldir, target, spelling):
    """returns (tree', ok) with a link named L placed in directory ldir"""
    t = copy.deepcopy(tree)
    here = subtree(t, ldir)
    depth = len(ldir.split('/')) if ldir else 0
    up = '../' * depth          # from ldir to the tree root
    ROOT = '@ROOT@'             # replaced by the absolute tree root at materialisation time
    if target == 'beside':
        ds = [n for n, nd in here.items() if nd['t'] == 'd']
        if not ds:
            return None
        rel, ab = ds[0], os.path.join(ROOT, ldir, ds[0])
    elif target == 'owndir':
        rel, ab = '.', os.path.join(ROOT, ldir)
    elif target == 'parent':
        rel, ab = '..', os.path.normpath(os.path.join(ROOT, ldir, '..'))
    elif target == 'root':
        rel, ab = (up or '.'), ROOT
    elif target == 'self':
        rel, ab = 'L', os.path.join(ROOT, ldir, 'L')
    elif target == 'outside':
        rel, ab = up + '../../outside', os.path.normpath(os.path.join(ROOT, '../../outside'))
    elif target == 'above1':
        rel, ab = up + '..', os.path.normpath(os.path.join(ROOT, '..'))
    elif target == 'above2':
        rel, ab = up + '../..', os.path.normpath(os.path.join(ROOT, '../..'))
    elif target == 'file':
        fs = [p for p, n, _ in core.walk_tree(tree) if n['t'] == 'f']
        if not fs:
            rel, ab = up + '../../outside/o1', os.path.normpath(os.path.join(ROOT, '../../outside/o1'))
        else:
            rel, ab = up + fs[0], os.path.join(ROOT, fs[0])
    elif target == 'dangling':
        rel, ab = 'nowhere/x', os.path.join(ROOT, 'nowhere/x')
    elif target == 'chain':
        here['L2'] = L(up + '../../outside' if spelling == 'rel' else os.path.normpath(os.path.join(ROOT, '../../outside')))
        rel, ab = 'L2', os.path.join(ROOT, ldir, 'L2')
    elif target == 'enotdir':
        # the target path runs through a regular file: resolving it fails with ENOTDIR, not ENOENT
        rel, ab = up + '../../outside/o1/attachment', os.path.normpath(os.path.join(ROOT, '../../outside/o1/attachment'))
    elif target in ('chain2', 'chain3'):
        # link -> link (outside the searched tree) [-> link] -> directory reachable in no other way
        name = 'cl' if target == 'chain2' else 'cl3'
        rel, ab = up + '../../' + name, os.path.normpath(os.path.join(ROOT, '../../' + name))
    elif target in ('prefixsib', 'prefixsib-rev'):
        # a sibling directory whose path is a textual prefix of the link's directory (d next to d3) without being an
        # ancestor of it - and the other way round
        if not ldir:
            return None
        pdir, last = os.path.split(ldir)
        par = subtree(t, pdir)
        short = last[:1]
        if short == last or short in par:
            return None
        par[short] = D({'ps': F(1), 'pd': D({'pf': F(1)})})
        if target == 'prefixsib':
            rel, ab = '../' + short, os.path.join(ROOT, pdir, short)
        else:
            here = par[short]['c']
            rel, ab = '../' + last, os.path.join(ROOT, ldir)
    here['L'] = L(rel if spelling == 'rel' else ab)
    return t


def pairs(tier):
    """cyclic families: two links"""
    a = {'a': D({'x': F(1), 'toB': L('../b')}), 'b': D({'y': F(1), 'toA': L('../a')})}
    yield a
    yield {'a': D({'b': D({'up2': L('../..'), 'up1': L('..')}), 'side': L('b')}), 'c': D({'z': F(1)})}
    yield {'a': D({'l1': L('../b')}), 'b': D({'l2': L('../c')}), 'c': D({'l3': L('../a'), 'f': F(1)})}
    yield {'a': D({'anc': L('..'), 'sib': L('../b')}), 'b': D({'f': F(1), 'back': L('../a')})}
    yield {'l1': L('l2'), 'l2': L('l1'), 'd': D({'f': F(1)})}
    # the same relative target text in two directories: dangling from one, a directory from the other (and vice versa)
    yield {'l1': L('../../outside/od'), 'sub': D({'l2': L('../../outside/od'), 'f': F(1)})}
    yield {'sub': D({'l1': L('../../outside/od')}), 'tub': D({'deep': D({'l2': L('../../outside/od')})}), 'l0': L('../../outside/od')}
    yield {'a': D({'same': L('x')}), 'b': D({'same': L('x'), 'x': D({'inb': F(1)})}), 'c': D({'same': L('x'), 'x': F(1)})}
    yield {'d': D({'same1': L('../e'), 'same2': L('../e')}), 'e': D({'f': F(1), 'g': D({'h': F(1)})})}


def configs(tier, windows_ok):
    if tier == 'quick':
        w2 = [2] if windows_ok else []
        out = []
        for mode in ('', 'dfs'):
            for w in [None] + w2:
                out.append({'root': 'dot', 'mode': mode, 'sym': True, 'max': w, 'rd': 'sorted'})
            out.append({'root': 'dot', 'mode': mode, 'sym': True, 'max': None, 'rd': 'rev'})
        out.append({'root': 'dot', 'mode': '', 'sym': False, 'max': None, 'rd': 'sorted'})
        out.append({'root': 'rel', 'mode': '', 'sym': True, 'max': None, 'rd': 'sorted'})
        out.append({'root': 'abs', 'mode': 'dfs', 'sym': True, 'max': None, 'rd': 'sorted'})
        for w in w2:
            out.append({'root': 'abs', 'mode': '', 'sym': True, 'max': w, 'rd': 'sorted'})
        out.append({'root': 'above', 'mode': '', 'sym': True, 'max': None, 'rd': 'sorted'})
        out.append({'root': 'above', 'mode': 'dfs', 'sym': False, 'max': None, 'rd': 'sorted'})
        out.append({'root': 'rx', 'mode': '', 'sym': True, 'max': None, 'rd': 'sorted'})
        return out
    out = []
    for r in ('dot', 'rel', 'abs', 'above', 'rx'):
        for mode in ('', 'dfs'):
            for sym in (True, False):
                for w in [None] + ([1, 2, 3] if windows_ok else []):
                    for rd in ('sorted', 'rev'):
                        out.append({'root': r, 'mode': mode, 'sym': sym, 'max': w, 'rd': rd})
    return out


def groups(tier, seed):
    seen = set()
    for base in base_trees(tier):
        for ldir in dirs_of(base):
            for target in TARGETS:
                for sp in ('rel', 'abs'):
                    t = decorate(base, ldir, target, sp)
                    if t is None:
                        continue
                    k = core.tree_sig(t)
                    if k in seen:
                        continue
                    seen.add(k)
                    yield {'tree': t, 'layer': 'one-link:' + target}
    for t in pairs(tier):
        yield {'tree': t, 'layer': 'two-links'}
    for mode in ('', 'dfs'):
        for rd in ('sorted', 'rev'):
            yield {'kind': 'odd-names', 'mode': mode, 'rd': rd, 'layer': 'odd-names'}
    # two disjoint roots with their own options; the same link (one inode, two names) lives in both
    for fa in (False, True):
        for fb in (False, True):
            for order in ('ab', 'ba'):
                for mode in ('', 'dfs'):
                    yield {'kind': 'two-roots', 'fa': fa, 'fb': fb, 'order': order, 'mode': mode, 'layer': 'two-roots'}
    # one root that follows links and one that does not, where the one reaches into the other (each root is searched under its own option)
    for mode in ('', 'dfs'):
        yield {'kind': 'mixed-roots', 'mode': mode, 'layer': 'mixed-roots'}
    yield from link_history_groups()


LH_COLS = [[], ['width'], ['height', 'duration'], ['size', 'is_dir'], ['sha1'], ['mime', 'width']]


def link_history_groups():
    # what was looked at before a link is met must not decide whether it is followed: columns that look through links, entries above the
    # depth window, links whose texts name the same place from different directories
    for scen in ('earlier-root', 'lexical-twin', 'dots-behind-link'):
        for ci in range(len(LH_COLS)):
            for mind in (None, 2, 3):
                for mode in ('', 'dfs'):
                    for rd in ('sorted', 'rev'):
                        yield {'kind': 'link-history', 'scen': scen, 'cols': ci, 'mind': mind, 'mode': mode, 'rd': rd, 'layer': 'link-history'}


def single(case):
    if case.get('kind') == 'link-history':
        return {k: case[k] for k in ('kind', 'scen', 'cols', 'mind', 'mode', 'rd', 'layer')}
    if case.get('kind') == 'two-roots':
        return {k: case[k] for k in ('kind', 'fa', 'fb', 'order', 'mode', 'layer')}
    if case.get('kind') == 'odd-names':
        return {k: case[k] for k in ('kind', 'mode', 'rd', 'layer')}
    if case.get('kind') == 'mixed-roots':
        return {'kind': 'mixed-roots', 'mode': case['mode'], 'layer': 'mixed-roots', 'only': case['argv']}
    return {'tree': case['tree'], 'layer': case.get('layer'), 'only': case['cfg']}


def fix_root(tree, root):
    t = copy.deepcopy(tree)

    def rec(d):
        for n, node in d.items():
            if node['t'] == 'l':
                node['to'] = node['to'].replace('@ROOT@', root)
            elif node['t'] == 'd':
                rec(node['c'])
    rec(t)
    return t


def model(troot, follow, maxdepth):
    """-> (set of (real parent, name), single_route: bool) by walking the real directory graph"""
    rows = []
    visited = {os.path.realpath(troot)}
    routes = {os.path.realpath(troot): 1}
    queue = [(os.path.realpath(troot), 1)]
    while queue:
        d, lvl = queue.pop(0)
        try:
            names = sorted(os.listdir(d))
        except OSError:
            continue
        for n in names:
            p = os.path.join(d, n)
            rows.append((d, n, lvl))
            if maxdepth and lvl >= maxdepth:
                continue
            st = os.lstat(p)
            import stat as st_
            if st_.S_ISDIR(st.st_mode):
                tgt = p
            elif st_.S_ISLNK(st.st_mode) and follow and os.path.isdir(p):
                tgt = os.path.realpath(p)
            else:
                continue
            routes[tgt] = routes.get(tgt, 0) + 1
            if tgt not in visited:
                visited.add(tgt)
                queue.append((tgt, lvl + 1))
    return rows, all(v == 1 for v in routes.values())


def eval_mixed_roots(env, group):
    holder = env.newdir('c18m')
    core.materialise(holder, {'m': D({'a': D({'fa': F(1), 'lnk': L('../b/sub')}), 'b': D({'g1': F(1), 'sub': D({'s1': F(1), 's2': F(1)})})}),
                              'n': D({'d': D({'f': F(1), 'sub': D({'l': L('../../ext'), 's': F(1)})}), 'ext': D({'e1': F(1), 'e2': F(1)})})})
    cases = [('m/a symlinks, m/b', ['m/a/fa', 'm/a/lnk', 'm/a/lnk/s1', 'm/a/lnk/s2', 'm/b/g1', 'm/b/sub', 'm/b/sub/s1', 'm/b/sub/s2']),
             ('m/b, m/a symlinks', ['m/a/fa', 'm/a/lnk', 'm/a/lnk/s1', 'm/a/lnk/s2', 'm/b/g1', 'm/b/sub', 'm/b/sub/s1', 'm/b/sub/s2']),
             ('m/a symlinks depth 1, m/b', ['m/a/fa', 'm/a/lnk', 'm/b/g1', 'm/b/sub', 'm/b/sub/s1', 'm/b/sub/s2']),
             ('n/d, n/d/sub symlinks', ['n/d/f', 'n/d/sub', 'n/d/sub/l', 'n/d/sub/s', 'n/d/sub/l', 'n/d/sub/s', 'n/d/sub/l/e1', 'n/d/sub/l/e2']),
             ('n/d depth 1, n/d/sub symlinks', ['n/d/f', 'n/d/sub', 'n/d/sub/l', 'n/d/sub/s', 'n/d/sub/l/e1', 'n/d/sub/l/e2']),
             ('n/d, n/ext symlinks', ['n/d/f', 'n/d/sub', 'n/d/sub/l', 'n/d/sub/s', 'n/ext/e1', 'n/ext/e2'])]
    outs = []
    try:
        for frm, exp in cases:
            frm2 = ', '.join(r_ + (' ' + group['mode'] if group['mode'] else '') for r_ in frm.split(', '))
            q = ['path from %s into list' % frm2]
            if group.get('only') is not None and group['only'] != q:
                continue
            o = env.run(q, cwd=holder, timeout=10.0)
            r_ = {'case': dict({k_: v_ for k_, v_ in group.items() if k_ != 'only'}, argv=q), 'layer': 'mixed-roots', 'nt': True, 'trans': len(exp) + 1}
            got = sorted(o.rows())
            if o.timeout:
                r_.update(status='viol', cls='no-termination', detail=dict(o.brief(), argv=q), sig=('hang',))
            elif got != sorted(exp):
                missing = [x for x in exp if exp.count(x) > got.count(x)]
                r_.update(status='viol', cls='mixed-roots:rows-missing' if missing else 'mixed-roots:rows-extra', sig=('rows', frm),
                          detail={'argv': q, 'missing': sorted(set(missing)), 'extra': sorted(set(x for x in got if got.count(x) > exp.count(x)))})
            elif o.rc != 0 or o.err:
                r_.update(status='viol', cls='status-or-stderr-with-nothing-unreadable', detail=dict(o.brief(), argv=q), sig=('rc', o.rc))
            else:
                r_.update(status='ok', sig=tuple(got))
            outs.append(r_)
    finally:
        env.rmtree(holder)
    return outs


def eval_two_roots(env, group):
    holder = env.newdir('c18t')
    core.materialise(holder, {'out': D({'od': D({'o1': F(1), 'deep': D({'o2': F(1)})}), 'oe': D({'o3': F(1)})}),
                              'a': D({'fa': F(1), 'sa': D({'x': F(1)})}), 'b': D({'fb': F(1)})})
    os.symlink(os.path.join(holder, 'out', 'od'), os.path.join(holder, 'a', 'la'))
    os.link(os.path.join(holder, 'a', 'la'), os.path.join(holder, 'b', 'lb'), follow_symlinks=False)      # one link, two names
    os.symlink('../out/oe', os.path.join(holder, 'a', 'sa', 'le'))
    os.symlink('../out/oe', os.path.join(holder, 'b', 'le2'))
    outs = []
    try:
        roots = [('a', group['fa']), ('b', group['fb'])]
        if group['order'] == 'ba':
            roots.reverse()
        frm = ', '.join(r + (' symlinks' if f else '') + (' ' + group['mode'] if group['mode'] else '') for r, f in roots)
        q = ['path from %s into list' % frm]
        o = env.run(q, cwd=holder, timeout=10.0)
        # model: roots in order, every real directory entered at most once per query, a link followed only under its root's option
        visited, exp = set(), []
        for r, follow in roots:
            start = os.path.realpath(os.path.join(holder, r))
            visited.add(start)
            queue = [start]
            while queue:
                d = queue.pop(0)
                for n in sorted(os.listdir(d)):
                    p = os.path.join(d, n)
                    exp.append((d, n))
                    if os.path.isdir(p) and (follow or not os.path.islink(p)):
                        t = os.path.realpath(p)
                        if t not in visited:
                            visited.add(t)
                            queue.append(t)
        exp.sort()
        case = dict(group, argv=q)
        r_ = {'case': case, 'layer': 'two-roots', 'nt': group['fa'] or group['fb'], 'trans': len(exp) + 1}
        if o.timeout:
            r_.update(status='viol', cls='no-termination', detail=dict(o.brief(), argv=q), sig=('hang',))
        elif o.panicked or o.rc not in (0, 1, 2):
            r_.update(status='viol', cls='crash', detail=dict(o.brief(), argv=q), sig=('crash',))
        else:
            got = []
            for p in o.rows():
                ap = os.path.normpath(os.path.join(holder, p))
                got.append((os.path.realpath(os.path.dirname(ap)), os.path.basename(ap)))
            got.sort()
            if got != exp:
                rel = lambda x: os.path.relpath(os.path.join(*x), holder)
                missing, extra = [x for x in exp if x not in got], [x for x in got if x not in exp]
                cls = 'rows-behind-link-missing' if missing and not extra else 'rows-extra' if extra and not missing else 'rows-differ'
                r_.update(status='viol', cls='two-roots:' + cls, sig=('rows', cls),
                          detail={'argv': q, 'missing': list(map(rel, missing))[:6], 'extra': list(map(rel, extra))[:6]})
            elif o.rc != 0 or o.err:
                r_.update(status='viol', cls='status-or-stderr-with-nothing-unreadable', detail=dict(o.brief(), argv=q), sig=('rc', o.rc))
            else:
                r_.update(status='ok', sig=tuple(got))
        outs.append(r_)
    finally:
        env.rmtree(holder)
    return outs


def eval_odd_names(env, group):
    """one link inode under two names whose relative target resolves differently; sibling directories whose names are
    no valid UTF-8 (they must not be taken for one directory)"""
    holder = env.newdir('c18o')
    R = os.path.join(holder, 'R')
    for d in ('a/r', 'a/t', 'b/r', 'b/t', 'o', 'c/r', 'e/r', 'e/s'):
        os.makedirs(os.path.join(R, d))
    for f in ('a/t/fa', 'b/t/fb', 'e/t'):
        open(os.path.join(R, f), 'w').close()
    os.symlink('../t', os.path.join(R, 'a/r/l'))
    # (under c the same text names nothing, under e a file)
    for other in ('b/r/l', 'c/r/l', 'e/r/l', 'e/s/l2'):
        os.link(os.path.join(R, 'a/r/l'), os.path.join(R, other), follow_symlinks=False)
    for n, f in ((b'\xff', b'x'), (b'\xfe', b'y'), (b'z\xff\xfe', b'w')):
        os.mkdir(os.path.join(os.fsencode(R), b'o', n))
        open(os.path.join(os.fsencode(R), b'o', n, f), 'w').close()
    outs = []
    try:
        q = ['name', 'from', 'R', 'symlinks'] + ([group['mode']] if group['mode'] else []) + ['into', 'list']
        o = env.run(q, cwd=holder, preload=True, env={'FSX_READDIR': group['rd']}, timeout=10.0)
        rows_, _ = model(R, True, None)
        lossy = lambda n: os.fsencode(n).decode('utf-8', 'replace')
        exp = sorted(lossy(n) for _, n, _ in rows_)
        got = sorted(o.out.decode('utf-8', 'replace').split('\0')[:-1])
        r_ = {'case': dict(group, argv=q), 'layer': 'odd-names', 'nt': True, 'trans': len(exp) + 1}
        if o.timeout:
            r_.update(status='viol', cls='no-termination', detail=dict(o.brief(), argv=q), sig=('hang',))
        elif o.panicked or o.rc != 0 or o.err:
            r_.update(status='viol', cls='status-or-stderr-with-nothing-unreadable', detail=dict(o.brief(), argv=q), sig=('rc', o.rc))
        elif got != exp:
            r_.update(status='viol', cls='odd-names:rows-behind-link-missing' if len(got) < len(exp) else 'odd-names:rows-differ', sig=('rows',),
                      detail={'argv': q, 'missing': [x for x in exp if exp.count(x) > got.count(x)][:8], 'extra': [x for x in got if got.count(x) > exp.count(x)][:8]})
        else:
            r_.update(status='ok', sig=tuple(got))
        outs.append(r_)
    finally:
        env.rmtree(holder)
    return outs


def eval_link_history(env, group):
    holder = env.newdir('c18h')
    png = (b'\x89PNG\r\n\x1a\n' + b'\x00\x00\x00\rIHDR' + (3).to_bytes(4, 'big') + (2).to_bytes(4, 'big') + b'\x08\x02\x00\x00\x00' + b'\x00' * 4)
    if group['scen'] == 'earlier-root':
        core.materialise(holder, {'pics': D({'p.png': F(data=png), 'q.txt': F(2)}), 'dirs': D({'sub': D({'s.png': F(data=png)})}),
                                  'store': D({'d': D({'img.png': F(data=png), 'deeper': D({'z': F(1)})}), 'f1': F(1)}),
                                  'albums': D({'trip': L('../store'), 'gone': L('../nowhere'), 'file': L('../pics/q.txt'), 'k': F(1)})})
        roots = ['pics', 'albums', 'dirs', 'albums']        # the root with the links comes after a root of files and after a root of directories
        variants = [['pics', 'albums'], ['dirs', 'albums'], ['albums'], ['pics', 'dirs', 'albums']]
    elif group['scen'] == 'dots-behind-link':
        # a link made of dots only, inside a directory that was itself reached through a link: the dots climb from where that directory really is
        core.materialise(holder, {'root': D({'a': D({'b': D({'jump': L('../../../out/d'), 'k': F(1)}), 'side': L('../../out2/in')}), 'same': L('.'), 'upa': D({'u': L('..')})}),
                                  'out': D({'beside.txt': F(1), 'd': D({'up': L('..'), 'f': F(1), 'deep': D({'up2': L('../..'), 'g': F(1)})}), 'other': D({'far.txt': F(1)})}),
                                  'out2': D({'in': D({'dotup': L('./..'), 'h': F(1)}), 'near': D({'n.txt': F(1)})})})
        variants = [['root'], ['root/a'], ['root/a/b'], ['root/upa']]      # (one root each: what a second root repeats of the first is not stated)
    else:
        core.materialise(holder, {'root': D({'aaa': L('shared'), 'pkgs': L('../store/v1'), 'zzz': L('shared'), 'mid': D({'m': F(1)})}),
                                  'store': D({'v1': D({'lib': L('../shared'), 'bin': D({'b': F(1)})}), 'shared': D({'s1': F(1), 'sd': D({'s2': F(1)})})}),
                                  'root2': D({'shared': D({'r2': F(1)}), 'pk': L('../store/v1'), 'own': L('shared')})})
        variants = [['root'], ['root2'], ['root', 'root2'], ['root2', 'root']]
    outs = []
    try:
        cols = LH_COLS[group['cols']]
        for rootlist in variants:
            opts = ' symlinks' + (' mindepth %d' % group['mind'] if group['mind'] else '') + (' ' + group['mode'] if group['mode'] else '')
            q = ['%s from %s into list' % (', '.join(['path'] + cols), ', '.join(r + opts for r in rootlist))]
            o = env.run(q, cwd=holder, timeout=10.0, preload=True, env={'FSX_READDIR': group['rd']})
            visited, exp = set(), []
            for r in rootlist:
                start = os.path.realpath(os.path.join(holder, r))
                visited.add(start)
                queue = [(start, 1)]
                while queue:
                    d, lvl = queue.pop(0)
                    for n in sorted(os.listdir(d)):
                        p = os.path.join(d, n)
                        if lvl >= (group['mind'] or 1):
                            exp.append((d, n))
                        if os.path.isdir(p):
                            t = os.path.realpath(p)
                            if t not in visited:
                                visited.add(t)
                                queue.append((t, lvl + 1))
            exp.sort()
            case = dict(group, argv=q)
            r_ = {'case': case, 'layer': 'link-history', 'nt': True, 'trans': len(exp) + 1}
            rows = o.rows(1 + len(cols))
            if o.timeout:
                r_.update(status='viol', cls='no-termination', detail=dict(o.brief(), argv=q), sig=('hang',))
            elif o.panicked or o.rc not in (0, 1, 2) or rows is None:
                r_.update(status='viol', cls='crash', detail=dict(o.brief(), argv=q), sig=('crash',))
            else:
                got = []
                for row in rows:
                    p = row if isinstance(row, str) else row[0]
                    ap = os.path.normpath(os.path.join(holder, p))
                    got.append((os.path.realpath(os.path.dirname(ap)), os.path.basename(ap)))
                got.sort()
                if got != exp:
                    rel = lambda x: os.path.relpath(os.path.join(*x), holder)
                    missing, extra = [x for x in exp if x not in got], [x for x in got if x not in exp]
                    cls = 'rows-behind-link-missing' if missing and not extra else 'rows-extra' if extra and not missing else 'rows-differ'
                    r_.update(status='viol', cls='link-history:' + cls, sig=('rows', cls),
                              detail={'argv': q, 'missing': list(map(rel, missing))[:6], 'extra': list(map(rel, extra))[:6], 'rd': group['rd']})
                elif o.rc != 0 or o.err:
                    r_.update(status='viol', cls='status-or-stderr-with-nothing-unreadable', detail=dict(o.brief(), argv=q), sig=('rc', o.rc))
                else:
                    r_.update(status='ok', sig=tuple(got))
            outs.append(r_)
    finally:
        env.rmtree(holder)
    return outs


def eval_group(env, group, tier):
    if group.get('kind') == 'mixed-roots':
        return eval_mixed_roots(env, group)
    if group.get('kind') == 'link-history':
        return eval_link_history(env, group)
    if group.get('kind') == 'two-roots':
        return eval_two_roots(env, group)
    if group.get('kind') == 'odd-names':
        return eval_odd_names(env, group)
    holder = env.newdir('c18')
    os.makedirs(os.path.join(holder, 'real'))
    troot = os.path.join(holder, 'real', 't')
    os.mkdir(troot)
    core.materialise(os.path.join(holder), {'outside': D({'o1': F(1), 'od': D({'o2': F(1)})}), 'only2': D({'p1': F(1), 'pd': D({'p2': F(1)})}),
                                            'only3': D({'q1': F(1)}), 'cl': L('only2'), 'cl3': L(os.path.join(holder, 'mid')), 'mid': L('only3')})
    core.materialise(troot, fix_root(group['tree'], troot))
    outs = []
    only = group.get('only')
    try:
        _, single_route = model(troot, True, None)
        for cfg in configs(tier, single_route):
            if only is not None and cfg != only:
                continue
            arg, cwd = {'dot': ('.', troot), 'rel': ('real/t', holder), 'abs': (troot, holder), 'above': ('t', os.path.join(holder, 'real')),
                        'rx': ('real/[t]', holder)}[cfg['root']]
            q = ['path', 'from', arg] + (['symlinks'] if cfg['sym'] else []) + ([cfg['mode']] if cfg['mode'] else []) + \
                (['maxdepth', str(cfg['max'])] if cfg['max'] else []) + (['bfs', 'rx'] if cfg['root'] == 'rx' else []) + ['into', 'list']
            o = env.run(q, cwd=cwd, preload=True, env={'FSX_READDIR': cfg['rd']}, timeout=10.0)
            exp_rows, _ = model(troot, cfg['sym'], cfg['max'])
            nofollow, _ = model(troot, False, cfg['max'])
            exp = sorted((d, n) for d, n, _ in exp_rows)
            case = {'tree': group['tree'], 'cfg': cfg, 'layer': group.get('layer'), 'argv': q}
            r = {'case': case, 'layer': group.get('layer'), 'nt': len(exp_rows) != len(nofollow), 'trans': len(exp) + 1}
            if o.timeout:
                r.update(status='viol', cls='no-termination', detail=dict(o.brief(), argv=q), sig=('hang',))
            elif o.panicked or o.rc not in (0, 1, 2):
                r.update(status='viol', cls='crash', detail=dict(o.brief(), argv=q), sig=('crash',))
            else:
                got = []
                for p in o.rows():
                    ap = os.path.normpath(os.path.join(cwd, p))
                    got.append((os.path.realpath(os.path.dirname(ap)), os.path.basename(ap)))
                got.sort()
                if got != exp:
                    missing = [x for x in exp if x not in got]
                    extra = [x for x in got if x not in exp]
                    dup = sorted({x for x in got if got.count(x) > 1})
                    cls = 'rows-behind-link-missing' if missing and not extra else 'rows-extra' if extra and not missing else \
                        'directory-traversed-twice' if dup and not missing and not extra else 'rows-differ'
                    if not cfg['sym']:
                        cls = 'without-option:' + cls
                    rel = lambda x: os.path.relpath(os.path.join(*x), holder)
                    r.update(status='viol', cls=cls, sig=('rows', cls),
                             detail={'argv': q, 'cwd': os.path.relpath(cwd, holder), 'missing': list(map(rel, missing))[:6],
                                     'extra': list(map(rel, extra))[:6], 'dup': list(map(rel, dup))[:4], 'stderr': o.err[:200].decode('utf-8', 'replace')})
                elif o.rc != 0 or o.err:
                    r.update(status='viol', cls='status-or-stderr-with-nothing-unreadable', detail=dict(o.brief(), argv=q), sig=('rc', o.rc))
                else:
                    r.update(status='ok', sig=tuple(got))
            outs.append(r)
    finally:
        env.rmtree(holder)
    return outs
