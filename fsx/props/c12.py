"""C12 Glob, LIKE, exact and regex matching agree with their textbook definitions."""
import os
import re
import warnings

warnings.simplefilter('ignore', FutureWarning)

from fsx import core
from fsx import matchers as mt
from fsx.core import F

ID = 'C12'
LEVEL = 'exploration'
RULE = ('name pool over {a,B,1,space} and every metacharacter . + ( ) [ ] { } | ^ $ - , \' # ~ (start/middle/end, alone and '
        'doubled) plus names containing the wildcard characters themselves, all in one directory; patterns derived from '
        'every name: every substring -> multi-wildcard, every character -> single-wildcard, case flip, delete/insert/'
        'substitute one character, unmodified; x the eight operators; one run judges all names; plus the same pattern text '
        'under two different operators in one query (shared regex cache), patterns computed per row from other columns, names with doubled quote characters; non-trivial = pattern accepts some but not all names')
ASSUMPTIONS = ['regex operators are checked on the Python/Rust common subset (escaped names and a small grammar)',
               'names and patterns never contain both quote characters']
BUDGET = {'quick': 50, 'thorough': 1200}

META = ['.', '+', '(', ')', '[', ']', '{', '}', '|', '^', '$', '-', ',', "'", '#', '~']


def bounds(tier):
    return {'names': len(pool(tier)), 'operators': 8}


def pool(tier):
    names = ['aB1', 'ab1', 'AB1', 'a B', 'a', 'B', '1', 'aB', 'a1B', 'aaB', 'aBB', '1aB']
    for m in META:
        cand = [m + 'aB', 'a' + m + 'B', 'aB' + m]
        if tier == 'thorough':
            cand += [m + m + 'a', 'a' + m + m, m + 'a' + m, 'a' + m + '1']
        names += cand
    names += ['a*B', 'a?B', 'a%B', 'a_B', 'aXB', 'aXYB', 'a\\B', 'a.b', 'axb', "it''s", "it's", 'say""hi', 'say"hi', "a''", '""b',
              'aB.aB', 'x.x', '1.1a', 'B.b']
    seen, out = set(), []
    for n in names:
        if n in ('.', '..') or n in seen:
            continue
        seen.add(n)
        out.append(n)
    return out


def quote(p):
    if "'" not in p:
        return "'" + p + "'"
    if '"' not in p:
        return '"' + p + '"'
    return None


def rx_escape(s):
    return ''.join('\\' + c if c in '\\.+*?()|[]{}^$#&-~' else c for c in s)


def patterns_for(name, multi, single):
    """(pattern, kind) derived from a name for a wildcard operator family."""
    out = [(name, 'same')]
    L = len(name)
    for i in range(L + 1):
        for j in range(i, L + 1):
            out.append((name[:i] + multi + name[j:], 'multi'))
    for i in range(L):
        out.append((name[:i] + single + name[i + 1:], 'single'))
    out.append((name.swapcase(), 'case'))
    for i in range(L):
        out.append((name[:i] + name[i + 1:], 'del'))
        out.append((name[:i] + 'X' + name[i + 1:], 'subst'))
        out.append((name[:i] + 'X' + name[i:], 'ins'))
        out.append((name[:i] + single + name[i:], 'ins-single'))
    return out


def gen(tier):
    names = pool(tier)
    seen = set()

    def emit(op, pat, fam):
        k = (op, pat)
        if k in seen or quote(pat) is None or pat == '':
            return None
        seen.add(k)
        return {'op': op, 'pat': pat, 'fam': fam}
    base = names
    for n in base:
        for pat, kind in patterns_for(n, '*', '?'):
            for op in ('=', '!='):
                c = emit(op, pat, 'glob-' + kind)
                if c:
                    yield c
        for pat, kind in patterns_for(n, '%', '_'):
            for op in ('like', 'notlike'):
                c = emit(op, pat, 'like-' + kind)
                if c:
                    yield c
        for pat in (n, n.swapcase(), n[:-1], n + 'X'):
            for op in ('===', '!=='):
                c = emit(op, pat, 'exact')
                if c:
                    yield c
        e = rx_escape(n)
        for pat in (e, '^' + e + '$', '^' + e, e + '$', '^' + rx_escape(n[:1]), rx_escape(n[-1:]) + '$'):
            for op in ('=~', '!=~'):
                c = emit(op, pat, 'regex-escaped')
                if c:
                    yield c
    for pat in ('^a.B$', '[aB]1', 'a|1', '^a+B', 'a{2}', '^[^a]', '\\.', 'B$', '^.$', '(a|B)(a|B)', 'a.*B', '^\\W'):
        for op in ('=~', '!=~'):
            c = emit(op, pat, 'regex-grammar')
            if c:
                yield c
    # patterns computed per row from other columns: every row brings its own pattern
    for rhs, f in (("concat('%.', ext)", lambda n, e: '%.' + e), ("concat(ext, '%')", lambda n, e: e + '%'), ("concat('*.', ext)", lambda n, e: '*.' + e),
                   ("concat('?', substr(name, 2))", lambda n, e: '?' + n[1:]), ('ext', lambda n, e: e), ("concat('^', ext)", lambda n, e: '^' + e),
                   ("lower(name)", lambda n, e: n.lower()), ("concat('_', substr(name, 2))", lambda n, e: '_' + n[1:])):
        for op in ('=', '!=', 'like', 'notlike', '===', '!==', '=~', '!=~'):
            yield {'op': op, 'rhs': rhs, 'pat': rhs, 'fam': 'computed-pattern'}
    # one pattern text under two operators in one query (regex cache keyed by text)
    for pat in ('a*', 'a%', 'a?B', 'a_B', 'a.B', '*B', '%B', 'a+B', 'a', 'aB1'):
        for a, b in (('=', 'like'), ('like', '='), ('=', '=~'), ('=~', 'like'), ('like', '=~'), ('=~', '='),
                     ('!=', 'notlike'), ('===', '=')):
            if (a == '=~' or b == '=~') and pat in ('*B', 'a+B') and False:
                continue
            yield {'op': a, 'op2': b, 'pat': pat, 'fam': 'shared-cache'}


def translate(pat, many, one):
    return '^' + ''.join('.*' if ch == many else '.' if ch == one else re.escape(ch) for ch in pat) + '$'


def gen_extra(tier):
    # a glob / LIKE pattern next to the regular expression it translates to (with and without inline flags)
    for pat in ('a*', 'a?B', '*B', 'a*1', '?B*'):
        for op, many, one in (('=', '*', '?'), ('like', '%', '_'), ('!=', '*', '?'), ('notlike', '%', '_')):
            p2 = pat.replace('*', many).replace('?', one)
            t = translate(p2, many, one)
            for rx in (t, '(?is)' + t, '(?i)' + t, t[1:-1]):
                for rop in ('=~', '!=~'):
                    for conj in ('and', 'or'):
                        yield {'fam': 'twin', 'op': op, 'pat': p2, 'op2': rop, 'pat2': rx, 'conj': conj, 'swap': False}
                        yield {'fam': 'twin', 'op': op, 'pat': p2, 'op2': rop, 'pat2': rx, 'conj': conj, 'swap': True}
    # patterns that reach the program as bare shell words (the shell has removed the quotes): digits, dashes and
    # column names inside them are text, not arithmetic
    for pat in ('2018*.txt', '2018*', '2018-rep*', '2018-report.txt', '2018-05-notes*', '2018?01-02.log', 'size*', '5*', 'cb23ef45%', '2018%', '2018-%',
                '2018%.txt', 'a-b*', '0', '2018',
                # wildcards at both ends and between numbers or names: still one pattern, never a product or a difference
                '*2018*05*', '2018*05*', '%2018%05%', '2018-05-*', '*.2018-05', '*size*5*', '*5', '%5', '2018-*', '*-1', '+ab', '+a?', '+a_', '+5', '2018*-*', 'size*5*'):
        for op in ('=', '!=', 'like', 'notlike', '===', '!==', '=~', '!=~'):
            if ('%' in pat and op in ('=', '!=')) or (op in ('=~', '!=~') and any(ch in pat for ch in '*?%+')):
                continue
            yield {'fam': 'bare-word', 'op': op, 'pat': pat}
    # a regular-expression search root whose segment text is also used as a pattern in WHERE
    for seg in ('proj.*', 'proj[12]', 'proj.?', '[p]roj1'):
        for op in ('=~', '!=~', '=', '!=', 'like', 'notlike'):
            yield {'fam': 'rxroot', 'op': op, 'pat': seg}


def groups(tier, seed):
    ex = list(gen_extra(tier))
    for i in range(0, len(ex), 120):
        yield {'cases': ex[i:i + 120]}
    chunk = []
    for c in gen(tier):
        chunk.append(c)
        if len(chunk) >= 120:
            yield {'cases': chunk}
            chunk = []
    if chunk:
        yield {'cases': chunk}


def single(case):
    return {'cases': [{k: v for k, v in case.items() if k in ('op', 'op2', 'pat', 'fam', 'rhs', 'pat2', 'conj', 'swap')}], 'tier': case.get('tier')}


def match(op, pat, name):
    if op in ('=', '!='):
        r = mt.text_eq(pat, name)
    elif op in ('like', 'notlike'):
        r = mt.like_match(pat, name)
    elif op in ('===', '!=='):
        r = pat == name
    else:
        r = re.search(pat, name) is not None
    return r != (op in ('!=', 'notlike', '!==', '!=~'))


def eval_group(env, group, tier):
    tier = group.get('tier') or tier
    root = env.newdir('c12')
    names = pool('thorough')       # the directory always holds the full pool
    core.materialise(root, {n: F(1) for n in names})
    outs = []
    try:
        for c in group['cases']:
            if 'rhs' in c:
                RH = {"concat('%.', ext)": lambda n, e: '%.' + e, "concat(ext, '%')": lambda n, e: e + '%', "concat('*.', ext)": lambda n, e: '*.' + e,
                      "concat('?', substr(name, 2))": lambda n, e: '?' + n[1:], 'ext': lambda n, e: e, "concat('^', ext)": lambda n, e: '^' + e,
                      "lower(name)": lambda n, e: n.lower(), "concat('_', substr(name, 2))": lambda n, e: '_' + n[1:]}[c['rhs']]
                q = 'name from . where name %s %s into list' % (c['op'], c['rhs'])
                o = env.run([q], cwd=root)
                exp = []
                skip = False
                for n in names:
                    e_ = n.rsplit('.', 1)[1] if '.' in n[1:] else ''
                    try:
                        if match(c['op'], RH(n, e_), n):
                            exp.append(n)
                    except re.error:
                        skip = True
                if skip or (c['op'] in ('=~', '!=~') and o.rc == 2):
                    continue        # a per-row value that is no regular expression is reported by the subject as such
                case = dict(c, tier=tier, query=q)
                r = {'case': case, 'nt': 0 < len(exp) < len(names), 'layer': 'computed', 'trans': len(names)}
                rows = o.rows()
                if o.timeout or o.rc != 0 or o.err:
                    r.update(status='viol', cls='computed-pattern:status', detail=dict(o.brief(), query=q), sig=('err', o.rc))
                elif sorted(rows) != sorted(exp):
                    got = set(rows)
                    r.update(status='viol', cls='computed-pattern:' + c['op'], sig=('rows', c['op']),
                             detail={'query': q, 'missing': sorted(set(exp) - got)[:6], 'extra': sorted(got - set(exp))[:6]})
                else:
                    r.update(status='ok', sig=tuple(sorted(exp)))
                outs.append(r)
                continue
            if c['fam'] == 'bare-word':
                bw = env.newdir('c12bw')
                bnames = ['2018report.txt', '2018-report.txt', '2018-05-notes.md', '2018x01-02.log', '2018', '0', 'size', 'sizes', '5', '55', 'cb23ef45aa',
                          'a-b.c', '1-1', 'other', 'x2018y05z', '2018-05-17.log', 'report.2018-05', 'size5x', 'asize25b', '25', '-1', '+ab', 'ab', '-ab', '+5', '10090']
                for n_ in bnames:
                    open(os.path.join(bw, n_), 'w').close()
                argv = ['name', 'from', '.', 'where', 'name', c['op'], c['pat'], 'into', 'list']
                o = env.run(argv, cwd=bw)
                env.rmtree(bw)
                exp = sorted(n_ for n_ in bnames if match(c['op'], c['pat'], n_))
                case = dict(c, tier=tier, query=' '.join(argv))
                r = {'case': case, 'nt': 0 < len(exp) < len(bnames), 'layer': 'bare-word', 'trans': len(bnames)}
                if o.timeout or o.rc != 0 or o.err:
                    r.update(status='viol', cls='bare-word:status', detail=dict(o.brief(), argv=argv), sig=('err', o.rc))
                elif sorted(o.rows()) != exp:
                    got = set(o.rows())
                    r.update(status='viol', cls='bare-word:' + c['op'] + ':rows', sig=('rows', 'bare', c['op']),
                             detail={'argv': argv, 'missing': sorted(set(exp) - got)[:6], 'extra': sorted(got - set(exp))[:6]})
                else:
                    r.update(status='ok', sig=tuple(exp))
                outs.append(r)
                continue
            if c['fam'] in ('twin', 'rxroot'):
                if c['fam'] == 'twin':
                    a = 'name %s %s' % (c['op'], quote(c['pat']))
                    b_ = 'name %s %s' % (c['op2'], quote(c['pat2']))
                    cond = (b_ + ' ' + c['conj'] + ' ' + a) if c['swap'] else (a + ' ' + c['conj'] + ' ' + b_)
                    q = 'name from . where %s into list' % cond
                    f = (lambda x, y: x and y) if c['conj'] == 'and' else (lambda x, y: x or y)
                    exp = sorted(n for n in names if f(match(c['op'], c['pat'], n), match(c['op2'], c['pat2'], n)))
                    universe = names
                else:
                    sub = {'proj1': ['myproj.txt', 'proj.txt', 'old-proj-notes', 'proj1', 'x'], 'proj2': ['aproj1', 'proj.', 'PROJ.x'], 'projects': ['proj.*']}
                    rxr = env.newdir('c12rx')
                    for d_, fs in sub.items():
                        os.makedirs(os.path.join(rxr, d_), exist_ok=True)
                        for f_ in fs:
                            open(os.path.join(rxr, d_, f_), 'w').close()
                    q = "name from %s rx where name %s %s into list" % (quote(c['pat']), c['op'], quote(c['pat']))
                    dirs_ = [d_ for d_ in sub if re.fullmatch(c['pat'], d_)]
                    universe = [f_ for d_ in dirs_ for f_ in sub[d_]]
                    exp = sorted(n for n in universe if match(c['op'], c['pat'], n))
                o = env.run([q], cwd=rxr if c['fam'] == 'rxroot' else root)
                if c['fam'] == 'rxroot':
                    env.rmtree(rxr)
                case = dict(c, tier=tier, query=q)
                r = {'case': case, 'nt': 0 < len(exp) < len(universe), 'layer': c['fam'], 'trans': len(universe)}
                rows = o.rows()
                if o.timeout or o.rc != 0 or o.err:
                    r.update(status='viol', cls=c['fam'] + ':status', detail=dict(o.brief(), query=q), sig=('err', o.rc))
                elif sorted(rows) != exp:
                    got = set(rows)
                    r.update(status='viol', cls=c['fam'] + ':' + c['op'] + ':rows', sig=('rows', c['fam'], c['op']),
                             detail={'query': q, 'missing': sorted(set(exp) - got)[:6], 'extra': sorted(got - set(exp))[:6]})
                else:
                    r.update(status='ok', sig=tuple(exp))
                outs.append(r)
                continue
            lit = quote(c['pat'])
            cond = 'name %s %s' % (c['op'], lit)
            if 'op2' in c:
                cond += ' or name %s %s' % (c['op2'], lit)
            q = 'name from . where %s into list' % cond
            o = env.run([q], cwd=root)
            try:
                exp = sorted(n for n in names if match(c['op'], c['pat'], n) or ('op2' in c and match(c['op2'], c['pat'], n)))
            except re.error:
                continue
            case = dict(c, tier=tier, query=q)
            r = {'case': case, 'nt': 0 < len(exp) < len(names), 'layer': c['fam'].split('-')[0], 'trans': len(names)}
            rows = o.rows()
            if o.timeout or o.rc != 0 or o.err:
                r.update(status='viol', cls=c['fam'] + ':status', detail=dict(o.brief(), query=q), sig=('err', o.rc))
            elif sorted(rows) != exp:
                got = set(rows)
                # name the offending character class for the report
                r.update(status='viol', cls=c['fam'] + ':' + c['op'] + ':rows', sig=('rows', tuple(sorted(got))),
                         detail={'query': q, 'missing': sorted(set(exp) - got)[:6], 'extra': sorted(got - set(exp))[:6]})
            else:
                r.update(status='ok', sig=tuple(exp))
            outs.append(r)
    finally:
        env.rmtree(root)
    return outs
