"""C03 AND / OR / NOT and brackets obey Boolean algebra over the result sets.

States = (atom tuple, formula, bracket style); the truth set of every atom is taken from
fselect itself (differential, so C02 defects do not leak in); rows(F) must equal the
set-algebra evaluation of F with AND binding tighter than OR and NOT = complement in the
unfiltered row set.  Formulas are enumerated completely by number of binary connectives.
"""
import itertools

from fsx import core
from fsx.core import D, F

ID = 'C03'
LEVEL = 'model_checking'
RULE = ('every formula of F ::= atom | not F | F and F | F or F | (F) | {F} with <= K binary connectives and <= 2 '
        'NOTs (K<=2: every leaf assignment over 3 atoms; K=3 (thorough 4): leaves A,B,C,.. in order), three bracket '
        'styles, over atom tuples drawn from every operator kind incl. infix `not like` / `not between`; tree has '
        'entries inside, outside and exactly on every literal; non-trivial = expected set neither empty nor everything')
MC_NOTE = ('breadth-first by formula size; state = (atom tuple, formula, style); transitions = set operations of the '
           'model evaluation; every formula is run on the real binary and compared')
ASSUMPTIONS = ['atoms are over always-present columns (size, name, is_dir, hardlinks)',
               'rows(atom) observed from fselect itself is the atom\'s meaning (C02 decides atoms)']
BUDGET = {'quick': 57, 'thorough': 1500}

# (text, kind, positive-form-for-infix-not or None)
ATOMS = {
    'gt': ('size > 10', None), 'ge': ('size >= 10', None), 'eq': ('size = 10', None),
    'lt': ('size < 10', None), 'le': ('size <= 10', None), 'ne': ('size != 10', None),
    'btw': ('size between 5 and 10', None), 'like': ('name like %a%', None), 'glob': ('name = *.txt', None),
    'rx': ('name =~ ^a', None), 'eeq': ('name === x', None), 'isdir': ('is_dir = true', None),
    'bare': ('is_dir', None), 'hl': ('hardlinks < 2', None), 'hlge': ('hardlinks gte 2', None),
    'nlike': ('name not like %a%', 'name like %a%'), 'nbtw': ('size not between 5 and 10', 'size between 5 and 10'),
    'nrx': ('name !=~ ^a', 'name =~ ^a'), 'arith': ('size + 1 > 10', None), 'len': ('length(name) = 2', None),
    'ene': ('name !== x', 'name === x'), 'ngt': ('size not > 10', 'size > 10'),
    'isfile': ('is_file != true', None),
    # a pattern operand computed per entry (the pattern differs from row to row)
    'dyn': ("name like concat(substr(name, 1, 1), '%x')", None), 'dynall': ("path like concat('%/', name)", None),
    'dynext': ("name like concat('%', ext)", None), 'dynrx': ("name =~ concat('^', substr(name, 1, 1), '.*t$')", None),
    # === takes wildcards literally, so its negation must too
    'eeqw': ("name === 'a?'", None), 'enew': ("name !== 'a*'", "name === 'a*'"),
    'issym': ('is_symlink', None), 'big': ('size > 100', None), 'symeq': ('is_symlink = false', None),
}

ATOMS.update({
    # a LIKE / glob pattern and the regular expression it translates to, side by side (letter case matters to one only)
    'likeA': ("name like 'a%'", None), 'rxA': ("name =~ '^a.*$'", None), 'nrxA': ("name !=~ '^a.*$'", "name =~ '^a.*$'"),
    'globA': ("name = 'a*'", None),
    # content-derived columns next to metadata columns (AND/OR only: they are not always present)
    'szpos': ('size > 0', None), 'lc3': ('line_count = 3', None), 'lcge': ('line_count >= 1', None), 'shb': ('is_shebang = true', None),
    'sha': ("sha1 = 'a9993e364706816aba3e25717850c26c9cd0d89d'", None), 'isf': ('is_file = true', None),
    # conditions whose complement is easy to lose: ordering of text, NaN operands, pattern operators on numbers and booleans,
    # a literal on the left, fractional and out-of-range literals
    'tgt': ("name > 'm'", None), 'tbtw': ("name between 'b' and 'n'", None), 'tnbtw': ("name not between 'b' and 'n'", "name between 'b' and 'n'"),
    'nanmod': ('size % size >= 0', None), 'nansqrt': ('sqrt(size - 10) >= 0', None), 'nanbtw': ('size / size between 0 and 2', None),
    'szlike': ("size like '1%'", None), 'sznlike': ("size not like '1%'", "size like '1%'"), 'szrx': ("size =~ '^1'", None),
    'boolike': ("is_dir like 'true'", None), 'litleft': ('10 < size', None), 'litleft2': ('1k >= size', None),
    'frac': ('size < 10.5', None), 'huge': ('size < 18446744073709551615', None), 'lenrx': ("length(name) rx '^3$'", None),
})

T0 = 1614852000      # 2021-03-04 10:00:00 UTC
ATOMS.update({
    # date conditions around entries whose time stamp has a fraction of a second: a condition and its complement see the same second
    'dgt': ("modified > '2021-03-04 10:00:00'", None), 'dle': ("modified <= '2021-03-04 10:00:00'", None), 'dge': ("modified >= '2021-03-04 10:00:01'", None),
    'dbtw': ("modified between '2021-03-04 09:00:00' and '2021-03-04 10:00:00'", None),
    'dnbtw': ("modified not between '2021-03-04 09:00:00' and '2021-03-04 10:00:00'", "modified between '2021-03-04 09:00:00' and '2021-03-04 10:00:00'"),
    'deq': ("modified = '2021-03-04 10:00'", None), 'dne': ("modified != '2021-03-04 10:00:00'", None),
})
ATOMS.update({
    # two regular expressions that differ in letter case only, where letter case is syntax
    'rxiw': ("name =~ '(?i)^a\\w'", None), 'rxiW': ("name =~ '(?i)^a\\W'", None), 'nrxiw': ("name !=~ '(?i)^A\\w'", "name =~ '(?i)^A\\w'"),
    'rxid': ("name =~ '(?i)^S\\d'", None), 'rxiD': ("name =~ '(?i)^s\\D'", None),
})
STAMPS = {'p9': T0 - 0.1, 'q0': T0, 'p4': T0 + 0.4, 'p99': T0 + 0.999, 'r1': T0 + 1, 'r14': T0 + 1.4, 'm59': T0 + 59.5, 'm60': T0 + 60.25, 'h9': T0 - 3600, 'h8': T0 - 3600.5}


def _sec(n):
    import math
    return math.floor(STAMPS[n]) if n in STAMPS else 4000000000


# the meaning of the atoms whose pattern is computed per entry (their rows cannot be taken on trust from a run in
# which the first entry met decides): name -> bool
MEANING = {
    'dyn': lambda n: len(n) >= 2 and n[-1] in 'xX', 'dynall': lambda n: True, 'dynext': lambda n: True,
    'dynrx': lambda n: len(n) >= 2 and n.endswith('t'),
    'likeA': lambda n: n[:1] in 'aA', 'globA': lambda n: n[:1] in 'aA', 'rxA': lambda n: n[:1] == 'a', 'nrxA': lambda n: n[:1] != 'a',
    'rxiw': lambda n: len(n) >= 2 and n[0] in 'aA' and (n[1].isalnum() or n[1] == '_'), 'rxiW': lambda n: len(n) >= 2 and n[0] in 'aA' and not (n[1].isalnum() or n[1] == '_'),
    'nrxiw': lambda n: not (len(n) >= 2 and n[0] in 'aA' and (n[1].isalnum() or n[1] == '_')),
    'rxid': lambda n: len(n) >= 2 and n[0] in 'sS' and n[1].isdigit(), 'rxiD': lambda n: len(n) >= 2 and n[0] in 'sS' and not n[1].isdigit(),
    'dgt': lambda n: _sec(n) > T0, 'dle': lambda n: _sec(n) <= T0, 'dge': lambda n: _sec(n) >= T0 + 1, 'dbtw': lambda n: T0 - 3600 <= _sec(n) <= T0,
    'dnbtw': lambda n: not (T0 - 3600 <= _sec(n) <= T0), 'deq': lambda n: T0 <= _sec(n) <= T0 + 59, 'dne': lambda n: _sec(n) != T0,
}

TUPLES = {
    'quick': [('gt', 'like', 'isdir', 'hl'), ('ge', 'glob', 'bare', 'btw'),
              ('eq', 'eeq', 'le', 'like'), ('nlike', 'gt', 'nbtw', 'bare'), ('lt', 'ne', 'rx', 'hl'),
              ('arith', 'len', 'hlge', 'glob'), ('le', 'nrx', 'ene', 'eq'), ('likeA', 'nrxA', 'rxA', 'globA'), ('tgt', 'nanmod', 'szlike', 'litleft', 'frac'), ('tbtw', 'tnbtw', 'nansqrt', 'szrx', 'boolike'), ('nanbtw', 'sznlike', 'litleft2', 'huge', 'lenrx'), ('dgt', 'dle', 'dbtw', 'dnbtw', 'deq'), ('dge', 'dne', 'dgt', 'deq'), ('rxiw', 'rxiW', 'nrxiw', 'rxid', 'rxiD'),
              ('szpos', 'lc3', 'issym', 'lcge', 'nonot'), ('isf', 'sha', 'shb', 'lc3', 'nonot', 'symlinks'), ('dyn', 'gt', 'eeqw', 'dynrx'), ('dynall', 'glob', 'dynext', 'lt'),
              ('issym', 'big', 'symeq', 'like', 'symlinks')],
}
TUPLES['thorough'] = TUPLES['quick'] + [('btw', 'rx', 'hl', 'lt'),
    ('gt', 'ge', 'eq', 'lt', 'le'), ('btw', 'nbtw', 'like', 'nlike', 'bare'), ('isdir', 'bare', 'isfile', 'hl', 'hlge'),
    ('rx', 'nrx', 'eeq', 'ene', 'glob'), ('ngt', 'gt', 'le', 'arith', 'len'), ('ne', 'eq', 'btw', 'glob', 'hl'),
    ('like', 'rx', 'glob', 'eeq', 'len'), ('lt', 'gt', 'isdir', 'like', 'hl'), ('enew', 'eeqw', 'dyn', 'bare', 'ne'),
    ('big', 'issym', 'dynrx', 'symeq', 'hl', 'symlinks'),
]
KMAX = {'quick': 3, 'thorough': 4}
CHUNK = 150


def bounds(tier):
    return {'connectives_max': KMAX[tier], 'nots_max': 2, 'styles': 3, 'atom_tuples': len(TUPLES[tier]),
            'all_leaf_assignments_up_to': '2 (3 for the first three atom tuples in the thorough tier)'}


def the_tree():
    t = {}
    for s in (3, 5, 9, 10, 11, 20):
        t['s%02d' % s] = D({'a.txt': F(s), 'b.txt': F(s), 'ax': F(s), 'x': F(s)})
    # hard links: second names for some files (hardlinks = 2)
    t['hl'] = D({'h1.txt': {'t': 'f', 'link': 's05/a.txt'}, 'ha': {'t': 'f', 'link': 's10/ax'},
                 'x': {'t': 'f', 'link': 's20/x'}, 'hb.txt': {'t': 'f', 'link': 's09/b.txt'},
                 'hx': {'t': 'f', 'link': 's10/x'}, 'h3.txt': {'t': 'f', 'link': 's11/a.txt'}})
    t['tm'] = D({n: F(1, mtime=ts) for n, ts in STAMPS.items()}, mtime=4000000000)
    t['e'] = D({})
    t['ax'] = D({})      # a directory whose name matches the name atoms
    t['x'] = F(10)
    t['a10.txt'] = F(10)
    t['a?'] = F(10)
    t['a*'] = F(11)
    t['s20']['c']['big'] = F(500)
    t['lines3'] = F(data='a\nb\nc\n')
    t['l3'] = {'t': 'l', 'to': 'lines3'}
    t['abc'] = F(data='abc')
    t['labc'] = {'t': 'l', 'to': 'abc'}
    t['run.sh'] = F(data='#!/bin/sh\necho\nexit\n')
    t['lrun'] = {'t': 'l', 'to': 'run.sh'}
    t['Abc'] = F(7)
    t['AX'] = F(12)
    t['lbig'] = {'t': 'l', 'to': 's20/big'}
    t['lsmall'] = {'t': 'l', 'to': 's03/x'}
    t['ldang'] = {'t': 'l', 'to': 'nowhere-at-all-this-target-text-is-longer-than-one-hundred-bytes-so-that-the-link-itself-is-big-too-xxxxxxxxxxxxxxx'}
    return t


# --------------------------------------------------------------------------- formulas

def trees(k):
    """binary op trees with k internal nodes; leaves are None."""
    if k == 0:
        yield None
        return
    for i in range(k):
        for l in trees(i):
            for r in trees(k - 1 - i):
                for op in '&|':
                    yield [op, l, r]


def count_nodes(t):
    return 1 if t is None or t[0] == 'a' else 1 + count_nodes(t[1]) + count_nodes(t[2])


def fill(t, leaves):
    it = iter(leaves)

    def rec(n):
        if n is None:
            return ['a', next(it)]
        return [n[0], rec(n[1]), rec(n[2])]
    return rec(t)


def with_nots(t, positions):
    """wrap the nodes whose pre-order index is in `positions` (a multiset) with NOT."""
    idx = [0]

    def rec(n):
        me = idx[0]
        idx[0] += 1
        if n[0] == 'a':
            r = n
        else:
            r = [n[0], rec(n[1]), rec(n[2])]
        for _ in range(positions.count(me)):
            r = ['n', r]
        return r
    return rec(t)


def formulas(k, leafmode, natoms):
    for sh in trees(k):
        nl = k + 1
        if leafmode == 'all':
            assigns = itertools.product(range(3), repeat=nl)
        else:
            assigns = [tuple(i % natoms for i in range(nl))]
        for leaves in assigns:
            base = fill(sh, leaves)
            n = count_nodes(base)
            yield base
            for p in range(n):
                yield with_nots(base, [p])
                yield with_nots(base, [p, p])
            for p, q in itertools.combinations(range(n), 2):
                yield with_nots(base, [p, q])


def render(f, style, atoms):
    o, c = ('{', '}') if style == 2 else ('(', ')')

    def rec(n, parent):
        t = n[0]
        if t == 'a':
            s = atoms[n[1]]
            return (o + s + c) if style in (1, 2) and parent == 'n' else s
        if t == 'n':
            inner = rec(n[1], 'n')
            if n[1][0] in '&|' and not (inner.startswith(o) and inner.endswith(c) and style in (1, 2)):
                inner = o + inner + c
            return 'not ' + inner
        l, r = rec(n[1], t), rec(n[2], t)
        s = l + (' and ' if t == '&' else ' or ') + r
        if style in (1, 2):
            return o + s + c
        if parent == '&' and t == '|':
            return o + s + c
        if parent == 'n':
            return o + s + c
        return s
    return rec(f, None)


def evaluate(f, sets, universe):
    t = f[0]
    if t == 'a':
        return sets[f[1]]
    if t == 'n':
        return universe - evaluate(f[1], sets, universe)
    l, r = evaluate(f[1], sets, universe), evaluate(f[2], sets, universe)
    return l & r if t == '&' else l | r


def classify(f, atoms_k):
    nots = []

    def rec(n):
        if n[0] == 'n':
            nots.append(n[1])
            rec(n[1])
        elif n[0] != 'a':
            rec(n[1])
            rec(n[2])
    rec(f)
    if not nots:
        return 'and-or-precedence-brackets'
    if any(x[0] == 'n' for x in nots):
        return 'double-negation'
    if any(x[0] in '&|' for x in nots):
        return 'de-morgan'
    return 'not-complement:' + '+'.join(sorted({atoms_k[x[1]] for x in nots}))


def has_not(f):
    return f[0] == 'n' or (f[0] != 'a' and (has_not(f[1]) or has_not(f[2])))


def nnodes(f):
    if f[0] == 'a':
        return 1
    if f[0] == 'n':
        return 1 + nnodes(f[1])
    return 1 + nnodes(f[1]) + nnodes(f[2])


def groups(tier, seed):
    for tup in TUPLES[tier]:
        atoms = [ATOMS[k][0] for k in tup if k not in ('symlinks', 'nonot')]
        seen = set()
        pending = []
        idx = 0
        kmax = KMAX[tier] if not (tier == 'quick' and TUPLES[tier].index(tup) >= 7) else 2
        nonot = 'nonot' in tup
        for k in range(0, kmax + 1):
            allmax = 2 if tier == 'quick' or TUPLES[tier].index(tup) >= 3 else 3
            if tier == 'quick' and TUPLES[tier].index(tup) >= 8:
                allmax = 1        # the special-purpose tuples: every leaf assignment for one connective, leaves in order beyond
            modes = ['all'] if k <= allmax else ['seq']
            for mode in modes:
                for f in formulas(k, mode, len(atoms)):
                    if nonot and has_not(f):
                        continue
                    styles = (0, 1, 2) if k <= 1 else (idx % 3,) if tier == 'quick' else (0, 1 + idx % 2)
                    idx += 1
                    for st in styles:
                        s = render(f, st, atoms)
                        if s in seen:
                            continue
                        seen.add(s)
                        pending.append([f, st, k])
                        if len(pending) >= CHUNK:
                            yield {'atoms': list(tup), 'forms': pending}
                            pending = []
        if pending:
            yield {'atoms': list(tup), 'forms': pending}


def single(case):
    if 'meaning' in case:
        return {'atoms': case['atoms'], 'forms': []}
    return {'atoms': case['atoms'], 'forms': [[case['f'], case['style'], case.get('k', 0)]]}


def eval_group(env, group, tier):
    tup = group['atoms']
    rootopt = ''
    if tup and tup[-1] == 'symlinks':
        rootopt, tup = ' symlinks', tup[:-1]
    if tup and tup[-1] == 'nonot':
        tup = tup[:-1]
    atoms = [ATOMS[k][0] for k in tup]
    root = env.newdir('c3')
    core.materialise(root, the_tree())
    outs = []
    try:
        def q(where):
            argv = ['path from .' + rootopt + ' ' + ('where ' + where + ' ' if where else '') + 'into list']
            return env.run(argv, cwd=root), argv
        o, _ = q(None)
        universe = frozenset(o.rows())
        if o.rc != 0 or len(universe) != len(list(core.walk_tree(the_tree()))):
            raise core.MachineryError('C03 universe query failed: %r' % o.brief())
        sets = []
        for k in tup:
            text, pos = ATOMS[k]
            o, argv = q(pos or text)
            if o.rc != 0 or o.err:
                raise core.MachineryError('atom query failed: %r %r' % (argv, o.brief()))
            s = frozenset(o.rows())
            sets.append(universe - s if pos else s)
            if k in MEANING:
                want = frozenset(p for p in universe if MEANING[k](p.rsplit('/', 1)[-1]))
                res = {'case': {'atoms': group['atoms'], 'meaning': k, 'query': argv[0]}, 'layer': 'atom-meaning', 'trans': 1, 'nt': True}
                if sets[-1] != want:
                    res.update(status='viol', cls='atom-meaning:' + k, sig=('meaning', k),
                               detail={'query': argv[0], 'missing': sorted(want - sets[-1])[:8], 'extra': sorted(sets[-1] - want)[:8]})
                else:
                    res.update(status='ok', sig=('meaning', k, len(want)))
                outs.append(res)
        for f, style, k in group['forms']:
            text = render(f, style, atoms)
            o, argv = q(text)
            case = {'atoms': group['atoms'], 'f': f, 'style': style, 'k': k, 'query': argv[0]}
            exp = evaluate(f, sets, universe)
            res = {'case': case, 'layer': 'k=%d' % k, 'trans': nnodes(f), 'nt': 0 < len(exp) < len(universe)}
            rows = o.rows()
            if o.timeout or o.rc != 0 or o.err:
                res.update(status='viol', cls='status-or-stderr', detail=o.brief(), sig=('err',))
            elif sorted(rows) != sorted(exp):
                got = set(rows)
                res.update(status='viol', cls=classify(f, tup),
                           detail={'query': argv[0], 'missing': sorted(exp - got)[:8], 'extra': sorted(got - exp)[:8],
                                   'dup': len(rows) - len(got)},
                           sig=('viol', tuple(sorted(got))))
            else:
                res.update(status='ok', sig=tuple(sorted(rows)))
            outs.append(res)
    finally:
        env.rmtree(root)
    return outs
