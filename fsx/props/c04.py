"""C04 Column values equal what the operating system and the file content say."""
import grp
import hashlib
import io
import itertools
import os
import pwd
import stat
import struct
import subprocess
import tempfile
import time
import zipfile

from fsx import core
from fsx.core import D, F, L

ID = 'C04'
LEVEL = 'exploration'
RULE = ('five exhaustive sub-spaces: (1) every permission value 0..07777 on regular files, directories, FIFOs and sockets on '
        'disk + symlink/char/block nodes, and as zip-member modes for all 7 type nibbles: mode string, 12 permission '
        'booleans, *_all, suid, sgid, type booleans; (2) lstat columns of every entry kind incl. dangling links and ids without '
        'a name; (3) xattrs and each of the 41 capabilities x {p,i,ip} x {e,-} x v2/v3 layouts; (4) name/ext/dir/path/abspath/'
        'absdir/is_hidden/is_empty over a name pool x root spellings x {bfs, dfs} x readdir order, and every extension of every class list x {lower, upper, '
        'mixed, whole name, non-final component} under the default and an overriding configuration (incl. multi-part and dot-less configured suffixes); (5) sha1/256/512/sha3, '
        'line_count, is_shebang, contains over lengths (plus ASCII and multi-byte needles straddling the 8K/32K/64K/128K boundaries at every byte alignment) {0..3, 2^k-1, 2^k, 2^k+1 : k=10..17} x content kinds x needle positions; '
        'non-trivial = every row whose expected cells are not all empty/false'
        '; needles inside Latin-1 and binary content; configured extensions with non-ASCII letters')
ASSUMPTIONS = ['oracle = os.lstat / stat.filemode / pwd / grp / hashlib / stat(1) %W for the birth time',
               'for zip members is_dir/is_file/is_symlink are derived from the member name (C19), only mode string, permission and '
               'special-file booleans are checked against the stored unix mode',
               'runs as root: unreadable modes do not block content reads']
BUDGET = {'quick': 55, 'thorough': 600}

PERM_COLS = ['user_read', 'user_write', 'user_exec', 'group_read', 'group_write', 'group_exec', 'other_read', 'other_write',
             'other_exec', 'user_all', 'group_all', 'other_all', 'suid', 'sgid']
TYPE_COLS = ['is_file', 'is_dir', 'is_symlink', 'is_pipe', 'is_char', 'is_block', 'is_socket']
TYPE_ALIAS = ['is_fifo', 'is_character']
CAPS = ['cap_chown', 'cap_dac_override', 'cap_dac_read_search', 'cap_fowner', 'cap_fsetid', 'cap_kill', 'cap_setgid', 'cap_setuid',
        'cap_setpcap', 'cap_linux_immutable', 'cap_net_bind_service', 'cap_net_broadcast', 'cap_net_admin', 'cap_net_raw',
        'cap_ipc_lock', 'cap_ipc_owner', 'cap_sys_module', 'cap_sys_rawio', 'cap_sys_chroot', 'cap_sys_ptrace', 'cap_sys_pacct',
        'cap_sys_admin', 'cap_sys_boot', 'cap_sys_nice', 'cap_sys_resource', 'cap_sys_time', 'cap_sys_tty_config', 'cap_mknod',
        'cap_lease', 'cap_audit_write', 'cap_audit_control', 'cap_setfcap', 'cap_mac_override', 'cap_mac_admin', 'cap_syslog',
        'cap_wake_alarm', 'cap_block_suspend', 'cap_audit_read', 'cap_perfmon', 'cap_bpf', 'cap_checkpoint_restore']


def bounds(tier):
    return {'permission_values': 4096, 'disk_types': ['f', 'd', 'p', 's'] + ['l', 'c', 'b'], 'zip_type_nibbles': 7, 'capabilities': len(CAPS),
            'capability_pairs': tier == 'thorough', 'content_lengths': len(content_lengths(tier))}


def b(v):
    return 'true' if v else 'false'


def perm_expect(m):
    return [b(m & 0o400), b(m & 0o200), b(m & 0o100), b(m & 0o040), b(m & 0o020), b(m & 0o010), b(m & 0o004), b(m & 0o002),
            b(m & 0o001), b(m & 0o700 == 0o700), b(m & 0o070 == 0o070), b(m & 0o007 == 0o007), b(m & 0o4000), b(m & 0o2000)]


def type_expect(m):
    return [b(stat.S_ISREG(m)), b(stat.S_ISDIR(m)), b(stat.S_ISLNK(m)), b(stat.S_ISFIFO(m)), b(stat.S_ISCHR(m)),
            b(stat.S_ISBLK(m)), b(stat.S_ISSOCK(m))]


def groups(tier, seed):
    for t in 'fdps':
        for chunk in range(8):
            yield {'kind': 'mode-disk', 'type': t, 'chunk': chunk}
    yield {'kind': 'mode-special'}
    yield {'kind': 'special-content'}
    for nib in (0o10, 0o04, 0o12, 0o01, 0o02, 0o06, 0o14):
        yield {'kind': 'mode-zip', 'nibble': nib}
    yield {'kind': 'lstat'}
    for lo in range(0, len(CAPS), 7):
        yield {'kind': 'caps', 'range': [lo, min(lo + 7, len(CAPS))]}
    yield {'kind': 'xattr'}
    if tier == 'thorough':
        for i in range(len(CAPS)):
            yield {'kind': 'cap-pairs', 'first': i}
    for root in ('dot', 'rel', 'abs', 'relslash'):
        for mode in ('', 'dfs', 'bfs'):
            for rd in ('sorted', 'rev'):
                yield {'kind': 'location', 'root': root, 'mode': mode, 'rd': rd}
    # the location columns under root options that make the walk resolve real paths itself (no ignore file exists: the rows are the same)
    for root in ('dot', 'rel', 'abs'):
        for mode in ('dfs dockerignore', 'dockerignore', 'dfs hgignore', 'hgignore bfs', 'dfs gitignore', 'gitignore', 'symlinks dfs', 'dfs archives'):
            for rd in ('sorted', 'rev'):
                yield {'kind': 'location', 'root': root, 'mode': mode, 'rd': rd}
    yield {'kind': 'odd-location'}
    # a symbolic link with several names (hard links of the link itself): what is read through each name is that name's own target
    for mode in ('', 'dfs'):
        for rd in ('sorted', 'rev'):
            yield {'kind': 'linked-link-content', 'mode': mode, 'rd': rd}
    # the location of an entry does not depend on the directories the walk came through before it (links that lead to places seen before)
    for mode in ('', 'dfs'):
        for rd in ('sorted', 'rev'):
            yield {'kind': 'link-location', 'mode': mode, 'rd': rd}
    yield {'kind': 'dimensions'}
    for cls in ('is_archive', 'is_audio', 'is_book', 'is_doc', 'is_font', 'is_image', 'is_source', 'is_video'):
        yield {'kind': 'extclass', 'cls': cls, 'override': False}
        yield {'kind': 'extclass', 'cls': cls, 'override': True}
        yield {'kind': 'extclass', 'cls': cls, 'override': 'flag'}      # the override file is named by --config (its path has capitals and a blank)
    for k in content_lengths(tier):
        yield {'kind': 'content', 'length': k}
    # contains() of one file must not depend on the file searched before it: a file that holds the start of the string at the end of a
    # block (and the whole string later) is followed by a file that begins with the rest of the string
    for bound in (4096, 8192, 32768, 65536, 131072, 1048576):
        yield {'kind': 'contains-history', 'bound': bound}
    # a value must not depend on the WHERE clause that let the row through, nor on the rows seen before it
    for ri in range(len(UF_ROOTS)):
        for mode in ('', 'dfs'):
            for rd in ('sorted', 'rev'):
                yield {'kind': 'under-filter', 'roots': ri, 'mode': mode, 'rd': rd}
    for bound in (8192, 32768, 65536, 131072, 262144, 1048576) + ((524288, 2097152, 4194304) if tier == 'thorough' else ()):
        yield {'kind': 'needle-align', 'bound': bound}


def single(case):
    g = dict(case.get('group') or {})
    # location rows are keyed by the displayed path, which contains the per-run scratch directory: replay the whole group
    g['only'] = None if g.get('kind') in ('location', 'link-location', 'linked-link-content') else case.get('row')
    return g


def content_lengths(tier):
    ls = [0, 1, 2, 3]
    for k in range(10, 18):
        ls += [2 ** k - 1, 2 ** k, 2 ** k + 1]
    if tier == 'thorough':
        ls = list(range(0, 71))
        for k in range(7, 21):
            ls += [2 ** k - 2, 2 ** k - 1, 2 ** k, 2 ** k + 1, 2 ** k + 2]
        ls += [3 * 8192, 3 * 8192 + 1, 5 * 32768 - 1, 100000, 1000003]
    return sorted(set(ls))


UF_ROOTS = [['r0'], ['r1', 'r2', 'r3'], ['r3', 'r2', 'r1'], ['r1', 'r2', 'r3', 'r0'], ['r0', 'r2', 'r3']]
UF_COLS = [['line_count'], ['sha1'], ['is_shebang', 'line_count'], ['size'], ['hardlinks', 'mode'], ['line_count', 'size'],
           ['contains(l2)'], ['sha256', 'is_shebang']]
# (text, predicate over {name, size, nlink, isfile, lines})
UF_N = [("name = 'b.txt'", lambda e: e['name'] == 'b.txt'), ("name like '%.txt'", lambda e: e['name'].endswith('.txt')),
        ("ext = 'log'", lambda e: e['name'].endswith('.log'))]
UF_M = [('size > 1', lambda e: e['size'] > 1), ('hardlinks > 1', lambda e: e['nlink'] > 1), ('is_file = true', lambda e: e['isfile'])]
UF_C = [('line_count > 1', lambda e: e['isfile'] and e['lines'] > 1)]


def uf_tree():
    r0 = {'a.txt': F(data='one\n'), 'b.txt': F(data='l1\nl2\nl3\n'), 'c.log': {'t': 'f', 'link': 'r0/a.txt'}, 'd.md': F(data='#!/bin/sh\nx\n'),
          'e.txt': {'t': 'f', 'link': 'r0/b.txt'}, 'f': F(0), 'g.bin': F(data=bytes((i * 11) % 256 for i in range(2000))),
          'sub': D({'h.txt': {'t': 'f', 'link': 'r0/a.txt'}, 'i.txt': F(data='q\nq\nq\nq\n'), 'j': {'t': 'f', 'link': 'r0/d.md'},
                    'k.log': F(data='l2 only')})}
    return {'r0': D(r0), 'r1': D({'a.txt': F(data='x\n')}), 'r2': D({'b.txt': F(data='1\n2\n3\n')}),
            'r3': D({'c.log': {'t': 'f', 'link': 'r1/a.txt'}})}


def uf_filters():
    out = []
    for (nt, nf), (mt, mf) in itertools.product(UF_N, UF_M):
        out += [('%s or %s' % (nt, mt), lambda e, nf=nf, mf=mf: nf(e) or mf(e)), ('%s or %s' % (mt, nt), lambda e, nf=nf, mf=mf: nf(e) or mf(e)),
                ('%s and %s' % (nt, mt), lambda e, nf=nf, mf=mf: nf(e) and mf(e)), ('%s and %s' % (mt, nt), lambda e, nf=nf, mf=mf: nf(e) and mf(e))]
    (ct, cf), (nt, nf), (mt, mf) = UF_C[0], UF_N[0], UF_M[0]
    out += [('%s or %s' % (nt, ct), lambda e: nf(e) or cf(e)), ('%s or (%s and %s)' % (nt, mt, ct), lambda e: nf(e) or (mf(e) and cf(e))),
            ('(%s or %s) and %s' % (nt, mt, UF_N[1][0]), lambda e: (nf(e) or mf(e)) and UF_N[1][1](e))]
    return out


def row_outcomes(group, rows, expected, cols, outs, layer):
    """rows: {key: tuple}, expected: {key: tuple}; one outcome per row"""
    only = group.get('only')
    g = {k: v for k, v in group.items() if k != 'only'}
    for key in sorted(expected):
        if only is not None and key != only:
            continue
        exp = expected[key]
        got = rows.get(key)
        case = {'group': g, 'row': key}
        r = {'case': case, 'layer': layer, 'nt': any(x not in ('', 'false') for x in exp), 'trans': len(exp)}
        if got is None:
            r.update(status='viol', cls=layer + ':row-missing', detail={'row': key}, sig=('missing',))
        elif tuple(got) != tuple(exp):
            bad = [(c, g_, e) for c, g_, e in zip(cols, got, exp) if g_ != e]
            r.update(status='viol', cls='%s:%s' % (layer, bad[0][0]), detail={'row': key, 'column': bad[0][0], 'got': bad[0][1],
                                                                            'expected': bad[0][2], 'all_bad': bad[:6]}, sig=('col', bad[0][0]))
        else:
            r.update(status='ok', sig=tuple(exp)[:8])
        outs.append(r)
    extra = set(rows) - set(expected)
    if extra and only is None:
        outs.append({'case': {'group': g, 'row': sorted(extra)[0]}, 'status': 'viol', 'cls': layer + ':unexpected-row',
                     'detail': {'rows': sorted(extra)[:5]}, 'nt': True, 'sig': ('extra',), 'layer': layer})


def query_rows(env, cwd, cols, frm='.', extra='', preload_env=None):
    q = 'name, ' + ', '.join(cols) + ' from ' + frm + extra + ' into list'
    o = env.run([q], cwd=cwd, env=preload_env)
    rows = o.rows(len(cols) + 1)
    if o.rc != 0 or o.err or rows is None:
        raise core.MachineryError('C04 query failed: %r %r' % (q, o.brief()))
    return {r[0]: tuple(r[1:]) for r in rows}


def cap_xattr(eff, permitted_bits, inheritable_bits, v3=False):
    magic = (0x03000000 if v3 else 0x02000000) | (1 if eff else 0)
    p0, p1 = permitted_bits & 0xffffffff, permitted_bits >> 32
    i0, i1 = inheritable_bits & 0xffffffff, inheritable_bits >> 32
    data = struct.pack('<IIIII', magic, p0, i0, p1, i1)
    if v3:
        data += struct.pack('<I', 0)
    return data


def eval_group(env, group, tier):
    kind = group['kind']
    root = env.newdir('c4')
    outs = []
    try:
        if kind == 'mode-disk':
            t = group['type']
            tree = {}
            lo = group['chunk'] * 512
            for m in range(lo, lo + 512):
                n = 'm%04o' % m
                tree[n] = {'f': F(1, mode=m), 'd': D({}, mode=m), 'p': {'t': 'p', 'mode': m}, 's': {'t': 's', 'mode': m}}[t]
            core.materialise(root, tree)
            cols = ['mode'] + PERM_COLS + TYPE_COLS + TYPE_ALIAS
            rows = query_rows(env, root, cols)
            exp = {}
            for n in tree:
                m = os.lstat(os.path.join(root, n)).st_mode
                te = type_expect(m)
                exp[n] = tuple([stat.filemode(m)] + perm_expect(m) + te + [te[3], te[4]])
            row_outcomes(group, rows, exp, cols, outs, 'mode-disk-' + t)
        elif kind == 'mode-special':
            tree = {'lnk': L('nowhere'), 'lnk2': L('.'), 'chr': {'t': 'c'}, 'blk': {'t': 'b'}, 'chr2': {'t': 'c', 'mode': 0o4751},
                    'blk2': {'t': 'b', 'mode': 0o2060}, 'reg': F(0, mode=0o1777), 'sticky': D({}, mode=0o1777), 'stickyT': D({}, mode=0o1776)}
            core.materialise(root, tree)
            cols = ['mode'] + PERM_COLS + TYPE_COLS + TYPE_ALIAS
            rows = query_rows(env, root, cols)
            exp = {}
            for n in tree:
                m = os.lstat(os.path.join(root, n)).st_mode
                te = type_expect(m)
                exp[n] = tuple([stat.filemode(m)] + perm_expect(m) + te + [te[3], te[4]])
            row_outcomes(group, rows, exp, cols, outs, 'mode-special')
        elif kind == 'special-content':
            # entries whose content cannot or must not be read (pipe, socket, devices, dangling link) next to a file and links to it:
            # every column answers promptly, attribute columns are the entry's own, location columns decompose the entry's own path
            body = '#!x\nabc\n'
            tree = {'fifo': {'t': 'p'}, 'sock': {'t': 's'}, 'cdev': {'t': 'c'}, 'bdev': {'t': 'b'}, 'reg': F(data=body, xattr={'user.k': 'v'}),
                    'lreg': L('reg'), 'lfifo': L('fifo'), 'ldang': L('nowhere'), 'ldir': L('sub'), 'sub': D({'in': F(1)}), 'plain': F(data='zz')}
            core.materialise(root, tree)
            os.setxattr(os.path.join(root, 'lreg'), 'trusted.own', b'mine', follow_symlinks=False)
            only = group.get('only')
            g = {k_: v_ for k_, v_ in group.items() if k_ != 'only'}
            sha = hashlib.sha1(body.encode()).hexdigest()
            E = ('', 'false')
            checks = [
                (['line_count', 'sha1', 'is_shebang', 'contains(abc)'],
                 {'reg': ('2', sha, 'true', 'true'), 'plain': ('0', hashlib.sha1(b'zz').hexdigest(), 'false', 'false'),
                  'fifo': ('', '', E, E), 'sock': ('', '', E, E), 'cdev': ('', '', E, E), 'bdev': ('', '', E, E), 'ldang': ('', '', E, E), 'lfifo': ('', '', E, E)}),
                (['has_xattrs', 'xattr(user.k)', 'has_xattr(user.k)', 'capabilities', 'has_caps()', 'xattr(trusted.own)'],
                 {'reg': ('true', 'v', 'true', '', 'false', ''), 'plain': ('false', '', 'false', '', 'false', ''),
                  'lreg': ('true', '', 'false', '', 'false', 'mine'), 'ldang': ('false', '', 'false', '', 'false', ''),
                  'lfifo': ('false', '', 'false', '', 'false', ''), 'fifo': ('false', '', 'false', '', 'false', ''),
                  'sock': ('false', '', 'false', '', 'false', ''), 'cdev': ('false', '', 'false', '', 'false', ''), 'bdev': ('false', '', 'false', '', 'false', '')}),
                (['mime', 'is_text', 'is_binary', 'sha256', 'sha512', 'sha3'], {}),
                (['abspath', 'absdir', 'dir', 'path'], 'location'),
            ]
            for cols, exp in checks:
                key = ','.join(cols)
                if only is not None and key != only:
                    continue
                o = env.run(['name, ' + ', '.join(cols) + ' from . maxdepth 1 into list'], cwd=root, timeout=8.0)
                rws = o.rows(1 + len(cols))
                r = {'case': {'group': g, 'row': key}, 'layer': 'special-content', 'nt': True, 'trans': len(tree)}
                bad = None
                if o.timeout:
                    r.update(status='viol', cls='special-content:hang', detail=dict(o.brief(), columns=cols), sig=('hang',))
                    outs.append(r)
                    continue
                if o.panicked or o.rc != 0 or rws is None or len(rws) != len(tree):
                    r.update(status='viol', cls='special-content:status', detail=dict(o.brief(), columns=cols), sig=('err',))
                    outs.append(r)
                    continue
                got = {x[0]: tuple(x[1:]) for x in rws}
                if exp == 'location':
                    for n, (ap, ad, d_, p_) in got.items():
                        if ap != ad + '/' + n or ad != os.path.realpath(root) or p_ != './' + n and p_ != n:
                            bad = (n, 'abspath', (ap, ad, d_, p_), ad + '/' + n)
                else:
                    for n, want in exp.items():
                        for c_, w_, v_ in zip(cols, want, got.get(n, ())):
                            if (v_ not in w_) if isinstance(w_, tuple) else (v_ != w_):
                                bad = (n, c_, v_, w_)
                if bad:
                    r.update(status='viol', cls='special-content:' + bad[1], sig=('sc', bad[1]),
                             detail={'entry': bad[0], 'column': bad[1], 'got': bad[2], 'expected': bad[3]})
                else:
                    r.update(status='ok', sig=('sc', key))
                outs.append(r)
        elif kind == 'mode-zip':
            nib = group['nibble']
            buf = io.BytesIO()
            with zipfile.ZipFile(buf, 'w') as z:
                for p in range(4096):
                    zi = zipfile.ZipInfo('m%04o' % p, (2020, 1, 2, 3, 4, 6))
                    zi.create_system = 3
                    zi.external_attr = ((nib << 12) | p) << 16
                    z.writestr(zi, b'')
            core.materialise(root, {'z.zip': F(data=buf.getvalue())})
            cols = ['mode'] + PERM_COLS + ['is_pipe', 'is_char', 'is_block', 'is_socket']
            rows = query_rows(env, root, cols, frm='. archives', extra=" where name like '[z.zip]%'")
            exp = {}
            for p in range(4096):
                m = (nib << 12) | p
                te = type_expect(m)
                exp['[z.zip] m%04o' % p] = tuple([stat.filemode(m)] + perm_expect(m) + te[3:])
            row_outcomes(group, rows, exp, cols, outs, 'mode-zip-%02o' % nib)
        elif kind == 'lstat':
            tree = {'reg': F(1234, uid=0, gid=0), 'own1': F(5, uid=1, gid=1), 'nobody': F(7, uid=65534, gid=65534),
                    'noname': F(9, uid=4242, gid=4343), 'big': F(2 ** 33 + 5, sparse=True), 'blocks': F(70000),
                    'h1': F(3), 'h2': {'t': 'f', 'link': 'h1'}, 'dir': D({'in': F(1)}, uid=1000, gid=100), 'lnk': L('reg'),
                    'dang': L('missing'), 'lnkdir': L('dir'), 'pipe': {'t': 'p'}, 'sock': {'t': 's'}, 'chr': {'t': 'c'}, 'blk': {'t': 'b'},
                    'old': F(2, mtime=86400 * 365, atime=86400 * 400), 'future': F(2, mtime=2000000000)}
            core.materialise(root, tree)
            time.sleep(0.01)
            cols = ['accessed', 'size', 'uid', 'gid', 'user', 'group', 'inode', 'hardlinks', 'blocks', 'device', 'modified', 'created',
                    'is_empty']
            exp = {}
            for n in tree:
                p = os.path.join(root, n)
                st = os.lstat(p)

                def nm(f, i):
                    try:
                        return f(i)[0]
                    except KeyError:
                        return ''
                fmt = lambda ts: time.strftime('%Y-%m-%d %H:%M:%S', time.gmtime(int(ts)))
                birth = subprocess.run(['stat', '--format=%W', p], stdout=subprocess.PIPE).stdout.decode().strip()
                isempty = (len(os.listdir(p)) == 0) if stat.S_ISDIR(st.st_mode) else st.st_size == 0
                exp[n] = (fmt(st.st_atime), str(st.st_size), str(st.st_uid), str(st.st_gid), nm(pwd.getpwuid, st.st_uid),
                          nm(grp.getgrgid, st.st_gid), str(st.st_ino), str(st.st_nlink), str(st.st_blocks), str(st.st_dev),
                          fmt(st.st_mtime), fmt(int(birth)) if birth not in ('0', '-', '') else '', b(isempty))
            # `accessed` is observed by a query that reads nothing else, against an lstat taken just before it
            acc = {n: (time.strftime('%Y-%m-%d %H:%M:%S', time.gmtime(int(os.lstat(os.path.join(root, n)).st_atime))),) for n in tree}
            arows = query_rows(env, root, ['accessed'], extra=' maxdepth 1')
            row_outcomes(dict(group, part='accessed'), arows, acc, ['accessed'], outs, 'lstat')
            cols = cols[1:]
            exp = {n: v[1:] for n, v in exp.items()}
            rows = query_rows(env, root, cols, extra=' maxdepth 1')
            row_outcomes(group, rows, exp, cols, outs, 'lstat')
            # time stamps that no calendar date can express (a tmpfs stores them): the date columns are empty, the other
            # columns and rows are as usual
            shm = tempfile.mkdtemp(prefix='fsx-c04-', dir='/dev/shm') if os.path.isdir('/dev/shm') and os.access('/dev/shm', os.W_OK) else None
            if shm:
                try:
                    for n, ts in (('far', 8210298412800), ('farther', 9000000000000), ('ok', 1600000000)):
                        open(os.path.join(shm, n), 'w').close()
                        os.utime(os.path.join(shm, n), (ts, ts))
                    if int(os.lstat(os.path.join(shm, 'far')).st_mtime) == 8210298412800:
                        o = env.run(['name, size, modified, accessed from . into list'], cwd=shm, timeout=8.0)
                        rws = o.rows(4) or []
                        r = {'case': {'group': {k_: v_ for k_, v_ in group.items() if k_ != 'only'}, 'row': '@far-future'}, 'layer': 'lstat', 'nt': True}
                        want = {'far': ('0', '', ''), 'farther': ('0', '', ''), 'ok': ('0', '2020-09-13 12:26:40', '2020-09-13 12:26:40')}
                        if o.panicked or o.rc != 0 or {x[0]: tuple(x[1:]) for x in rws} != want:
                            r.update(status='viol', cls='lstat:modified-out-of-range', detail=dict(o.brief(), expected=want), sig=('far',))
                        else:
                            r.update(status='ok', sig=('far',))
                        if group.get('only') in (None, '@far-future'):
                            outs.append(r)
                finally:
                    subprocess.run(['rm', '-rf', shm])
        elif kind == 'caps':
            tree, exp = {}, {}
            lo, hi = group['range']
            for ci in range(lo, hi):
                bit = 1 << ci
                for eff in (0, 1):
                    for pi, (pb, ib) in {'p': (bit, 0), 'i': (0, bit), 'ip': (bit, bit)}.items():
                        for v3 in (False, True):
                            n = 'c%02d_%d_%s_%d' % (ci, eff, pi, v3)
                            tree[n] = F(1, xattr={'security.capability': cap_xattr(eff, pb, ib, v3)})
                            s = '%s=%s%s' % (CAPS[ci], 'e' if eff else '', pi)
                            other = CAPS[(ci + 1) % len(CAPS)]
                            exp[n] = (s, s, 'true', 'true', 'true', 'true', 'false', 'true')
            tree['nocaps'] = F(1)
            exp['nocaps'] = ('', '', 'false', 'false', 'false', 'false', 'false', 'false')
            allbits = (1 << 41) - 1
            tree['all'] = F(1, xattr={'security.capability': cap_xattr(1, allbits, 0)})
            alls = ' '.join('%s=ep' % c for c in CAPS)
            exp['all'] = (alls, alls, 'true', 'true', 'true', 'true', 'true', 'true')
            core.materialise(root, tree)
            c0 = CAPS[lo]
            # per-file has_cap(own capability) needs the capability name: query per capability
            cols = ['capabilities', 'caps', 'has_caps()', 'has_capabilities()']
            rows = query_rows(env, root, cols + ['has_xattrs'])
            exp4 = {n: tuple(v[:4]) + (v[7],) for n, v in exp.items()}
            row_outcomes(group, rows, exp4, cols + ['has_xattrs'], outs, 'caps')
            for ci in range(lo, hi):
                cname = CAPS[ci]
                rows = query_rows(env, root, ["has_cap('%s')" % cname, "has_capability(%s)" % cname])
                e2 = {}
                for n in tree:
                    has = n == 'all' or n.startswith('c%02d_' % ci)
                    if n == 'nocaps':
                        e2[n] = ('false', 'false')      # a boolean: a file without capabilities does not have this one
                    else:
                        e2[n] = (b(has), b(has))
                g2 = dict(group, cap=cname)
                row_outcomes(g2, rows, e2, ['has_cap', 'has_capability'], outs, 'has_cap')
        elif kind == 'cap-pairs':
            i = group['first']
            tree, exp = {}, {}
            for j in range(len(CAPS)):
                if j == i:
                    continue
                n = 'p%02d_%02d' % (i, j)
                tree[n] = F(1, xattr={'security.capability': cap_xattr(j % 2, (1 << i) | (1 << j), (1 << j) if j % 3 == 0 else 0)})
                e = 'e' if j % 2 else ''
                parts = {i: CAPS[i] + '=' + e + 'p', j: CAPS[j] + '=' + e + ('ip' if j % 3 == 0 else 'p')}
                exp[n] = (' '.join(parts[k] for k in sorted(parts)),)
            core.materialise(root, tree)
            rows = query_rows(env, root, ['capabilities'])
            row_outcomes(group, rows, exp, ['capabilities'], outs, 'cap-pairs')
        elif kind == 'xattr':
            tree = {'plain': F(1), 'one': F(1, xattr={'user.test': b'hello'}), 'two': F(1, xattr={'user.a': b'1', 'user.b': b'x y'}),
                    'empty': F(1, xattr={'user.test': b''}), 'utf8': F(1, xattr={'user.test': 'héllo'.encode()}),
                    'dirx': D({}, xattr={'user.test': b'dir'}), 'trusted': F(1, xattr={'trusted.t': b'1'})}
            core.materialise(root, tree)
            cols = ['has_xattrs', 'xattr(user.test)', 'has_xattr(user.test)', 'has_xattr(user.b)', 'xattr(user.nope)']
            rows = query_rows(env, root, cols)
            exp = {}
            for n in tree:
                p = os.path.join(root, n)
                xs = os.listxattr(p)
                def gx(k):
                    try:
                        return os.getxattr(p, k).decode()
                    except OSError:
                        return ''
                exp[n] = (b(len(xs) > 0), gx('user.test'), b('user.test' in xs), b('user.b' in xs), '')
            row_outcomes(group, rows, exp, cols, outs, 'xattr')
        elif kind == 'location':
            names = ['plain', 'a.txt', '.hidden', '.hid.den', 'two.dots.tar.gz', 'UPPER.TXT', 'trail.', 'no ext', 'sp ace.t x',
                     'é.ü', '..two', 'a.b.c.d', '-dash.x']
            tree = {'top': D({n: F(i % 3) for i, n in enumerate(names)})}
            tree['top']['c']['sub.dir'] = D({'in.ner': F(0), '.h': F(1)})
            tree['top']['c']['emptydir'] = D({})
            tree['top']['c']['.hdir'] = D({'x': F(1)})
            core.materialise(root, tree)
            spelling = group['root']
            arg = {'dot': '.', 'rel': 'top', 'abs': os.path.join(root, 'top'), 'relslash': 'top/'}[spelling]
            cwd = os.path.join(root, 'top') if spelling == 'dot' else root
            cols = ['name', 'ext', 'dir', 'abspath', 'absdir', 'is_hidden', 'is_empty', 'extension', 'dirname', 'directory']
            mode = group.get('mode', '')
            q = 'path, ' + ', '.join(cols) + ' from ' + arg + (' ' + mode if mode else '') + ' into list'
            o = env.run([q], cwd=cwd, preload=True, env={'FSX_READDIR': group.get('rd', 'sorted')})
            rws = o.rows(len(cols) + 1)
            if o.rc != 0 or rws is None:
                raise core.MachineryError('location query failed %r' % o.brief())
            rows = {r[0]: tuple(r[1:]) for r in rws}
            exp = {}
            base = os.path.join(root, 'top')
            for dp, dns, fns in os.walk(base):
                for n in dns + fns:
                    full = os.path.join(dp, n)
                    rel = os.path.relpath(full, base)
                    shown = os.path.join(arg, rel) if not arg.endswith('/') else arg + rel
                    st = os.lstat(full)
                    ext = '' if (n.startswith('.') and n.count('.') == 1) else (n.rsplit('.', 1)[1] if '.' in n else '')
                    if n.startswith('..') and n.count('.') == 2:
                        ext = n.rsplit('.', 1)[1]
                    d = os.path.dirname(shown)
                    isempty = (len(os.listdir(full)) == 0) if stat.S_ISDIR(st.st_mode) else st.st_size == 0
                    exp[shown] = (n, ext, d, os.path.realpath(full), os.path.realpath(dp), b(n.startswith('.')), b(isempty), ext, d, d)
            row_outcomes(group, rows, exp, cols, outs, 'location-' + spelling)
        elif kind == 'linked-link-content':
            pass
            core.materialise(root, {'a': D({'data': F(data='alpha\nline two\n')}), 'b': D({'data': F(data='#!/bin/sh\nbravo bravo\n')}), 'c': D({'other': F(1)}), 'e': D({'data': D({'x': F(1)})})})
            os.symlink('data', os.path.join(root, 'a', 'link'))
            for d_ in ('b', 'c', 'e'):
                os.link(os.path.join(root, 'a', 'link'), os.path.join(root, d_, 'link'), follow_symlinks=False)
            cols = ['sha1', 'sha256', 'line_count', 'is_shebang', 'contains(bravo)', 'is_symlink']
            for w in ('', " where name = 'link'", ' where is_symlink = true or size gt 0'):
                q = 'path, %s from . %s%s into list' % (', '.join(cols), group['mode'], w)
                o = env.run([q], cwd=root, preload=True, env={'FSX_READDIR': group['rd']})
                rws = o.rows(1 + len(cols)) or []
                bad = []
                for row in rws:
                    full = os.path.join(root, row[0])
                    if not os.path.islink(full):
                        continue
                    try:
                        data = open(full, 'rb').read()
                        want = (hashlib.sha1(data).hexdigest(), hashlib.sha256(data).hexdigest(), str(data.count(b'\n')), b(data.startswith(b'#!')), b(b'bravo' in data))
                    except OSError:
                        want = None
                    got = tuple(row[1:6])
                    if (want is not None and got != want) or (want is None and (got[0] or got[1])):
                        bad.append([row[0], list(got), list(want) if want else 'no content'])
                r = {'case': {'group': {k_: v_ for k_, v_ in group.items() if k_ != 'only'}, 'row': w}, 'layer': 'linked-link-content', 'nt': True, 'trans': len(rws)}
                if o.rc not in (0, 1) or sum(1 for row in rws if row[0].endswith('/link')) != 4 or bad:
                    r.update(status='viol', cls='content-through-a-link-with-several-names', sig=('linkedlink',), detail={'query': q, 'wrong': bad[:3], 'rows': len(rws), 'err': o.brief()['err']})
                else:
                    r.update(status='ok', sig=('linkedlink', len(rws)))
                outs.append(r)
        elif kind == 'link-location':
            core.materialise(root, {'top': D({'a': D({'x': F(1), 'deep': D({'back': L('../..'), 'w': F(1)})}), 'l1': L('a'), 'l2': L('a'), 'm-after': F(1),
                                              'n': D({'y': F(1), 'up': L('..'), 'side': L('../a/deep'), 'zzz': F(1), 'zd': D({'q': F(1)})}), 'z-last': F(1)})})
            for opt in ('', 'dockerignore', 'hgignore', 'gitignore', 'gitignore hgignore dockerignore'):
                for frm, cwd in (('top', root), ('.', os.path.join(root, 'top')), (os.path.join(root, 'top'), root)):
                    q = 'path, absdir, abspath, is_symlink from %s symlinks %s %s into list' % (frm, opt, group['mode'])
                    o = env.run([q], cwd=cwd, preload=True, env={'FSX_READDIR': group['rd']})
                    rws = o.rows(4) or []
                    bad = []
                    for shown, absdir, abspath, islink in rws:
                        parent = os.path.realpath(os.path.join(cwd, os.path.dirname(shown)))
                        if absdir != parent or (islink == 'false' and abspath != os.path.join(parent, os.path.basename(shown))):
                            bad.append([shown, absdir, abspath, parent])
                    r = {'case': {'group': {k_: v_ for k_, v_ in group.items() if k_ != 'only'}, 'row': [opt, frm if frm in ('top', '.') else 'abs']}, 'layer': 'link-location', 'nt': True,
                         'trans': len(rws)}
                    if o.rc != 0 or o.err or len(rws) < 14 or bad:
                        r.update(status='viol', cls='location-after-a-revisited-directory', sig=('linkloc',), detail={'query': q, 'rows': len(rws), 'wrong': bad[:4], 'err': o.brief()['err']})
                    else:
                        r.update(status='ok', sig=('linkloc', len(rws)))
                    outs.append(r)
        elif kind == 'odd-location':
            # entries below directories whose names are no valid UTF-8
            broot = os.fsencode(root)
            for d in (b'a\xff', b'b\xfe\xfd', b'plain'):
                os.makedirs(os.path.join(broot, d, b'in'))
                open(os.path.join(broot, d, b'x'), 'w').close()
                open(os.path.join(broot, d, b'in', b'y'), 'w').close()
            for frm in ('.', os.fsdecode(broot)):
                for mode in ('', ' dfs'):
                    o = env.run(['path, abspath, absdir, name from %s%s into list' % ("'" + frm + "'", mode)], cwd=root)
                    rws = o.rows(4) or []
                    lossy = lambda b_: b_.decode('utf-8', 'replace')
                    want = []
                    for dp, dns, fns in os.walk(broot):
                        for n in dns + fns:
                            full = os.path.join(dp, n)
                            shown = (frm if frm != '.' else '.') + lossy(full[len(broot):])
                            want.append((shown, lossy(os.path.realpath(full) if not os.path.islink(full) else full), lossy(os.path.realpath(dp)), lossy(n)))
                    bad = sorted(set(map(tuple, rws)) ^ set(want))
                    r = {'case': {'group': {'kind': 'odd-location'}, 'row': frm[:1] + mode}, 'layer': 'odd-location', 'nt': True, 'trans': len(want)}
                    if o.rc != 0 or o.err or sorted(map(tuple, rws)) != sorted(want):
                        r.update(status='viol', cls='location-below-non-utf8-directory', sig=('oddloc',), detail={'from': frm, 'mode': mode, 'differs': [list(x) for x in bad[:4]], 'err': o.brief()['err']})
                    else:
                        r.update(status='ok', sig=('oddloc', len(want)))
                    outs.append(r)
        elif kind == 'dimensions':
            import struct as _st
            png = lambda w, h: b'\x89PNG\r\n\x1a\n' + b'\x00\x00\x00\rIHDR' + _st.pack('>II', w, h) + b'\x08\x02\x00\x00\x00' + b'\x00' * 4
            gif = lambda w, h: b'GIF89a' + _st.pack('<HH', w, h) + b'\x00\x00\x00' + b';'
            bmp = lambda w, h: b'BM' + _st.pack('<IHHI', 54, 0, 0, 54) + _st.pack('<IiiHHIIiiII', 40, w, h, 1, 24, 0, 0, 0, 0, 0, 0)
            svg = lambda w, h: ('<svg xmlns="http://www.w3.org/2000/svg" width="%d" height="%d"></svg>' % (w, h)).encode()
            tree, exp = {}, {}
            for ext, mk in (('png', png), ('gif', gif), ('bmp', bmp), ('svg', svg)):
                for w, h in ((30, 20), (20, 30), (1, 1000), (640, 480)):
                    n = 'i%dx%d.%s' % (w, h, ext)
                    tree[n] = F(data=mk(w, h))
                    exp[n] = (str(w), str(h))
            tree['none.txt'] = F(3)
            exp['none.txt'] = ('', '')
            core.materialise(root, tree)
            rows = query_rows(env, root, ['width', 'height'])
            row_outcomes(group, rows, exp, ['width', 'height'], outs, 'dimensions')
        elif kind == 'extclass':
            cls = group['cls']
            conf0 = open(env.config_path()).read()
            import re
            m = re.search(r'(?ms)^%s = \[(.*?)\]' % cls, conf0)
            default_list = re.findall(r'"([^"]+)"', m.group(1))
            if group['override']:
                active = ['.zzz', '.q1', default_list[0], '.tar.gz', 'akefile', '.a.b.c', '.äxt', '.ÖD', '.Upp']
                lst = ', '.join('"%s"' % e for e in active)
                newconf = re.sub(r'(?ms)^%s = \[.*?\]' % cls, '%s = [%s]' % (cls, lst), conf0)
            else:
                active = default_list
                newconf = conf0
            tree = {}
            for e in set(default_list + ['.zzz', '.q1', '.nomatch']):
                bare = e[1:]
                for n in ('f' + e, 'F' + e.upper(), 'm' + e.title(), e, bare, 'x' + e + '.txt', 'x' + bare, 'y.' + bare + 'z'):
                    tree[n] = F(0)
            for n in ('x.tar.gz', 'X.TAR.GZ', 'y.gz', 'tar.gz', '.tar.gz', 'Makefile', 'makefile', 'akefile', 'Makefile.in', 'q.a.b.c', 'a.b.c', 'q.b.c',
                      'x.tar.gzz', 'xtar.gz', 'a.äxt', 'a.ÄXT', 'a.Äxt', 'b.öd', 'b.ÖD', 'c.upp', 'c.UPP', 'c.Upp', 'a.axt', 'clip.m\u212av'):
                tree[n] = F(0)
            tree['dir' + default_list[0]] = D({})
            core.materialise(root, tree)
            if group['override'] == 'flag':
                cdir = os.path.join(root, 'Conf Dir')
                os.mkdir(cdir)
                cpath = os.path.join(cdir, 'Over.TOML')
                with open(cpath, 'w') as f_:
                    f_.write(newconf)
                o = env.run(['--config', cpath, 'name, %s from . where is_file = true and name != Over.TOML into list' % cls], cwd=root)
                rws = o.rows(2)
                if o.rc != 0 or o.err or rws is None:
                    outs.append({'case': {'group': {k_: v_ for k_, v_ in group.items() if k_ != 'only'}, 'row': '--config'}, 'status': 'viol',
                                 'cls': 'extclass-config-flag:status', 'detail': dict(o.brief(), config=cpath), 'nt': True, 'sig': ('cfgflag',),
                                 'layer': 'extclass-override'})
                    return outs
                rows = {r_[0]: tuple(r_[1:]) for r_ in rws}
                tree.pop('dir' + default_list[0], None)
            else:
                try:
                    env.set_config(newconf)
                    rows = query_rows(env, root, [cls])
                finally:
                    env.set_config(conf0)
            exp = {n: (b(any(n.lower().endswith(x.lower()) for x in active)),) for n in tree}
            row_outcomes(group, rows, exp, [cls], outs, 'extclass-' + ('override' if group['override'] else 'default'))
        elif kind == 'needle-align':
            # a needle (ASCII / multi-byte) straddling a buffer boundary at every byte alignment
            B = group['bound']
            needles = {'A': 'NEEDLE', 'U': 'NÉ中DLÉ', 'S': 'é'}
            tree, exp = {}, {}
            for tag, nd in needles.items():
                nb = nd.encode()
                for shift in range(0, len(nb) + 2):
                    n = '%s_%02d' % (tag, shift)
                    tree[n] = F(data=b'a' * (B - shift) + nb + b'b' * 50)
                for shift in (1, 2):
                    n2 = '%s_cut%d' % (tag, shift)      # only a proper prefix of the needle is present
                    tree[n2] = F(data=b'a' * (B - shift) + nb[:-1] + b'b' * 50)
            core.materialise(root, tree)
            for tag, nd in needles.items():
                rows = query_rows(env, root, ["contains('%s')" % nd])
                e2 = {}
                for n, node in tree.items():
                    try:
                        e2[n] = (b(nd in node['data'].decode('utf-8')),)
                    except UnicodeDecodeError:
                        e2[n] = rows.get(n, ('',))
                row_outcomes(dict(group, needle=tag), rows, e2, ['contains'], outs, 'needle-align')
        elif kind == 'under-filter':
            core.materialise(root, uf_tree())
            roots = UF_ROOTS[group['roots']]
            frm = ', '.join(r + (' ' + group['mode'] if group['mode'] else '') for r in roots)
            penv = {'FSX_READDIR': group['rd']}
            ents = {}
            for r in roots:
                for dp, dns, fns in os.walk(os.path.join(root, r)):
                    for n in dns + fns:
                        p = os.path.join(dp, n)
                        st = os.lstat(p)
                        isf = stat.S_ISREG(st.st_mode)
                        ents[os.path.relpath(p, root)] = {'name': n, 'size': st.st_size, 'nlink': st.st_nlink, 'isfile': isf,
                                                          'lines': open(p, 'rb').read().count(b'\n') if isf else 0}
            only = group.get('only')
            g = {k_: v for k_, v in group.items() if k_ != 'only'}
            for cols in UF_COLS:
                def q(where):
                    o = env.run(['path, ' + ', '.join(cols) + ' from ' + frm + (' where ' + where if where else '') + ' into list'],
                                cwd=root, env=penv, preload=True)
                    rows_ = o.rows(len(cols) + 1)
                    if o.rc != 0 or o.err or rows_ is None:
                        return None, o
                    return {r_[0]: tuple(r_[1:]) for r_ in rows_}, o
                base, o = q(None)
                if base is None or set(base) != set(ents):
                    raise core.MachineryError('C04 under-filter base query failed: %r' % (o.brief(),))
                for wtext, pred in uf_filters():
                    key = '%s | %s' % (','.join(cols), wtext)
                    if only is not None and key != only:
                        continue
                    got, o = q(wtext)
                    want = {p: base[p] for p, e in ents.items() if pred(e)}
                    r = {'case': {'group': g, 'row': key}, 'layer': 'under-filter', 'nt': 0 < len(want) < len(ents), 'trans': len(want) + 1}
                    if got is None:
                        r.update(status='viol', cls='under-filter:status', detail=dict(o.brief(), where=wtext), sig=('err',))
                    elif got != want:
                        badp = sorted(p for p in set(got) | set(want) if got.get(p) != want.get(p))
                        r.update(status='viol', cls='under-filter:' + ('rows' if set(got) != set(want) else cols[0]), sig=('uf', cols[0]),
                                 detail={'from': frm, 'where': wtext, 'columns': cols, 'row': badp[0], 'got': got.get(badp[0]),
                                         'unfiltered': want.get(badp[0]), 'rd': group['rd']})
                    else:
                        r.update(status='ok', sig=('uf', len(want)))
                    outs.append(r)
        elif kind == 'contains-history':
            bound, needle = group['bound'], b'NEEDLE'
            tree, roots, exp = {}, [], {}
            for k in range(1, len(needle)):
                for later in (True, False):
                    big = b'a' * (bound - k) + needle[:k] + b'b' * 50 + (needle if later else b'') + b'c' * 10
                    nxt = needle[k:] + b'd' * 20
                    tag = '%d%s' % (k, 'y' if later else 'n')
                    tree['b' + tag] = D({'big' + tag: F(data=big)})
                    tree['n' + tag] = D({'next' + tag: F(data=nxt)})
                    roots += ['b' + tag, 'n' + tag]
                    exp['big' + tag] = (b(later),)
                    exp['next' + tag] = ('false',)
            core.materialise(root, tree)
            for frm in (', '.join(roots), ', '.join(r_ + ' dfs' for r_ in roots), ', '.join(reversed(roots))):
                rows = query_rows(env, root, ["contains('NEEDLE')"], frm=frm)
                row_outcomes(dict(group, order=frm[:12]), rows, exp, ['contains'], outs, 'contains-history')
        elif kind == 'content':
            k = group['length']
            needle = 'NEEDLE'
            def fill(n, ch=b'a'):
                return ch * n
            tree = {}
            tree['text_nl'] = F(data=(b'line\n' * (k // 5 + 1))[:k])
            tree['text_nonl'] = F(data=(b'abcd\n' * (k // 5 + 1))[:max(0, k - 1)] + (b'x' if k else b''))
            tree['binary'] = F(data=bytes((i * 7) % 256 for i in range(k)))
            tree['badutf8'] = F(data=(b'\xff\xfe' * (k // 2 + 1))[:k])
            tree['shebang'] = F(data=(b'#!/bin/sh\n' + fill(k))[:k])
            tree['hash_only'] = F(data=(b'# not\n' + fill(k))[:k])
            tree['nl_only'] = F(data=b'\n' * k)
            if k >= len(needle):
                tree['needle_start'] = F(data=(needle.encode() + fill(k))[:k])
                tree['needle_end'] = F(data=fill(k - len(needle)) + needle.encode())
                tree['needle_none'] = F(data=fill(k))
                # text in another encoding and binary data around the needle
                tree['needle_latin1'] = F(data=(b'caf\xe9 ' + needle.encode() + b' na\xefve\n' + fill(k))[:max(k, 12)])
                tree['needle_bin'] = F(data=bytes((i * 7) % 256 for i in range(k // 2)) + needle.encode() + bytes((i * 11) % 256 for i in range(k // 2)))
                tree['needle_cut'] = F(data=b'\xff\xfe' + needle.encode()[:-1] + b'\xff' + fill(k))
                for bound in (8192, 32768, 65536):
                    if k > bound + 3:
                        tree['needle_x%d' % bound] = F(data=fill(bound - 3) + needle.encode() + fill(k - bound - 3))
            tree['adir'] = D({})
            core.materialise(root, tree)
            cols = ['sha1', 'sha256', 'sha512', 'sha3', 'sha2_256', 'sha2_512', 'sha3_512', 'line_count', 'is_shebang', 'contains(NEEDLE)', 'size']
            rows = query_rows(env, root, cols)
            exp = {}
            for n, node in tree.items():
                if node['t'] == 'd':
                    continue
                data = node['data'] if isinstance(node['data'], bytes) else node['data'].encode()
                h = lambda f: f(data).hexdigest()
                cont = b(needle.encode() in data)       # the bytes are searched, whatever encoding the rest of the file has
                exp[n] = (h(hashlib.sha1), h(hashlib.sha256), h(hashlib.sha512), h(hashlib.sha3_512), h(hashlib.sha256), h(hashlib.sha512),
                          h(hashlib.sha3_512), str(data.count(b'\n')), b(data[:2] == b'#!'), cont, str(len(data)))
            rows.pop('adir', None)
            row_outcomes(group, rows, exp, cols, outs, 'content')
    finally:
        env.rmtree(root)
    return outs
