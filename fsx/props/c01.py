"""C01 Traversal is exact: every entry in the depth window, once, nothing else.

Closed systems explored: (tree shape) x (root spelling) x (mindepth, maxdepth window) x
(default|bfs|dfs) x every readdir arrival order (shim) of directories with <= 4 entries.  The model is the tree value itself:
an entry at nesting level l is a row iff (min in {None,0} or l >= min) and (max in {None,0}
or l <= max); symlinks are rows and are never descended.
"""
import itertools
import os

from fsx import core
from fsx.core import D, F, L

ID = 'C01'
LEVEL = 'model_checking'
RULE = ('every tree shape with <= E entries (files / empty dirs, up to isomorphism) plus one-at-a-time '
        'substitution of each leaf by special kinds and adversarial names; x root spellings (omitted, ., ./, '
        'relative, trailing slash, sub/.., absolute, symlinked ancestor, several disjoint roots with own options) '
        'x every mindepth/maxdepth in {absent,0..D+2} x {default,bfs,dfs}; every readdir permutation of directories with <= 4 entries; one 3300-entry-wide and one 64-level-deep tree; a case is non-trivial when the '
        'expected row set is neither empty nor the whole tree, or when the ordering law has >= 2 levels to order'
        '; roots whose bare names spell 19 words of the query language, alone and at every place of a root list')
MC_NOTE = ('state = one closed configuration (tree, roots, window, mode, readdir order); transitions = '
           'directory-entry events compared with the walk model; every model trace is compared with the real binary')
ASSUMPTIONS = ['ext4/tmpfs scratch directory; names that are not valid UTF-8 are compared as multisets of their lossy text',
               'a search root that is itself a symlink is not generated (statement does not define it)']
BUDGET = {'quick': 50, 'thorough': 1500}


def bounds(tier):
    return {'max_entries': EMAX[tier], 'subst_max_entries': SUBST[tier], 'window': '{absent,0..D+2}^2',
            'modes': ['default', 'bfs', 'dfs'], 'jail_root_slash': True, 'readdir_permutations': 'all, dirs <= 4 entries'}


EMAX = {'quick': 4, 'thorough': 6}
SUBST = {'quick': 3, 'thorough': 4}

SPECIAL = [
    ('dotfile', lambda: ('.hid', F(3))),
    ('dotdir', lambda: ('.hd', D({'in': F(1)}))),
    ('symdir', lambda: ('ln', L('.'))),          # link to the containing directory (a directory)
    ('symfile', lambda: ('lf', L('/etc/hostname'))),
    ('dangling', lambda: ('dg', L('nowhere'))),
    ('selfloop', lambda: ('lp', L('lp'))),
    ('fifo', lambda: ('pp', {'t': 'p'})),
    ('socket', lambda: ('so', {'t': 's'})),
    ('space', lambda: ('a b', F(2))),
    ('dots', lambda: ('a..b.c.', F(2))),
    ('utf8', lambda: ('é中', F(2))),
    ('dash', lambda: ('-x', F(2))),
    ('globch', lambda: ('[a]*?', F(2))),
    ('dirspace', lambda: ('d e', D({'q': F(1)}))),
]


def tree_depth(tree):
    return max([lvl for _, _, lvl in core.walk_tree(tree)] or [0])


def leaves(tree, pre=()):
    for name, node in tree.items():
        if node['t'] == 'd' and node['c']:
            yield from leaves(node['c'], pre + (name,))
        else:
            yield pre + (name,)


def subst(tree, path, name, node):
    import copy
    t = copy.deepcopy(tree)
    cur = t
    for p in path[:-1]:
        cur = cur[p]['c']
    # keep position: rebuild dict with replacement
    new = {}
    for k, v in cur.items():
        if k == path[-1]:
            new[name] = node
        else:
            new[k] = v
    cur.clear()
    cur.update(new)
    return t


def windows(depth, full):
    vals = [None] + list(range(0, depth + 3))
    if full:
        return [(a, b) for a in vals for b in vals]
    return [(None, None), (None, 1), (1, None), (2, 2), (1, 2), (2, 1), (None, depth), (depth, None),
            (depth + 1, None), (0, 0)]


def cases_for(tree, tier, special=False):
    depth = tree_depth(tree)
    topdirs = [n for n, nd in tree.items() if nd['t'] == 'd']
    out = []
    modes = [None, 'bfs', 'dfs']
    full_roots = ['omit', 'dot', 'abs']
    part_roots = ['dotslash', 'rel', 'relslash', 'symanc']
    if topdirs:
        part_roots.append('dotdot')
    if special:
        full_roots, part_roots = ['dot'], ['abs', 'rel']
    for r in full_roots:
        for (a, b) in windows(depth, not special or tier == 'thorough'):
            for m in modes:
                out.append({'roots': [[r, a, b, m]]})
    for r in part_roots:
        ws = windows(depth, tier == 'thorough' and not special)
        if tier == 'quick':
            ws = ws[:4] if special else ws[:7]
        for (a, b) in ws:
            for m in (modes if tier == 'thorough' else [None, 'dfs']):
                out.append({'roots': [[r, a, b, m]]})
    if len(topdirs) >= 2 and not special:
        w2 = [(None, None), (None, 1), (2, None), (1, 1)] if tier == 'quick' else windows(depth, False)
        k = len(topdirs)
        for combo in itertools.product(w2, repeat=min(k, 2)):
            for m in [None, 'dfs']:
                roots = []
                for i, dn in enumerate(topdirs[:3]):
                    a, b = combo[i % len(combo)]
                    roots.append(['sub:' + dn, a, b, m])
                out.append({'roots': roots})
        # mixed modes per root
        out.append({'roots': [['sub:' + topdirs[0], None, None, 'dfs'], ['sub:' + topdirs[1], None, None, 'bfs']]})
    return out


def groups(tier, seed):
    shapes = core.tree_shapes(EMAX[tier])
    # scale layer: a very wide and a very deep tree (internal queues, buffers and caps have sizes too)
    yield {'tree': 'wide', 'layer': 'scale', 'cases': [{'roots': [['dot', a, b_, m]]} for m in (None, 'bfs', 'dfs')
                                                       for (a, b_) in ((None, None), (2, None), (None, 1), (2, 2))]}
    yield {'tree': 'deep', 'layer': 'scale', 'cases': [{'roots': [['dot', a, b_, m]]} for m in (None, 'dfs')
                                                       for (a, b_) in ((None, None), (60, None), (None, 59), (30, 31))]}
    # the deep tree again with few file descriptors to spare: both modes still return everything (a walk must not keep a directory open per level)
    yield {'tree': 'deep', 'layer': 'scale', 'cases': [{'roots': [['dot', a, b_, m]], 'nofile': 24} for m in (None, 'bfs', 'dfs') for (a, b_) in ((None, None), (40, None))]}
    # names that are not valid UTF-8 (distinct names may print identically; rows are compared as multisets of lossy text)
    nu = {'d\udcff': D({'one': F(1), 'sub': D({'deep': F(1)})}), 'd\udcfe': D({'two': F(1)}), 'plain': D({'three': F(1)}),
          'f\udcff': F(1), 'f\udcfe': F(1), '\udcff\udcfe': D({'\udc80': F(1)})}
    yield {'tree': nu, 'layer': 'non-utf8', 'cases': [{'roots': [[r, a, b, m]], 'lossy': True} for r in ('dot', 'abs', 'rel')
                                                      for (a, b) in windows(3, True) for m in (None, 'bfs', 'dfs')]}
    # disjoint roots whose paths are textual prefixes of one another (lib, lib64, li): every ordered list of two and three
    pre = {'lib': D({'a': F(1), 'x': D({'b': F(1)})}), 'lib64': D({'c': F(1), 'y': D({'d': F(1)})}), 'li': D({'e': F(1)}),
           'lib64x': D({'g': F(1)})}
    cs = []
    for k in (2, 3):
        for names in itertools.permutations(sorted(pre), k):
            for ws in (((None, None),) * k, ((None, 1),) * k, ((None, None), (None, 1), (2, None))[:k], ((2, None), (None, None), (None, None))[:k]):
                for m in (None, 'dfs'):
                    cs.append({'roots': [['sub:' + n, a, b, m] for n, (a, b) in zip(names, ws)]})
    yield {'tree': pre, 'layer': 'prefix-named-roots', 'cases': cs}
    # roots whose bare names spell words of the query language: alone, first, last and in the middle of a list
    kw = {n: D({n[0] + '1': F(1), 's': D({n[0] + '2': F(1)})}) for n in ('asc', 'order', 'rx', 'regexp', 'like', 'by', 'desc', 'or', 'and', 'eq', 'mul', 'ASC', 'Order', 'group', 'not',
                                                                         'between', 'minus', 'depth', 'dfs')}
    kw['plain'] = D({'p1': F(1)})
    cs = []
    for n in sorted(kw):
        if n == 'plain':
            continue
        for m in (None, 'dfs'):
            for (a, b) in ((None, None), (None, 1), (2, None)):
                cs.append({'roots': [['bare:' + n, a, b, m]]})
                cs.append({'roots': [['bare:plain', None, None, None], ['bare:' + n, a, b, m]]})
                cs.append({'roots': [['bare:' + n, a, b, m], ['bare:plain', None, None, None]]})
        cs.append({'roots': [['bare:plain', None, None, None], ['bare:' + n, None, None, None], ['bare:asc' if n != 'asc' else 'bare:rx', None, None, None]]})
    yield {'tree': kw, 'layer': 'keyword-named-roots', 'cases': cs}
    # disjoint roots whose spellings end in the same names (../lib and lib, /abs/.../docs/api and docs/api), in both orders
    same = {'lib': D({'a': F(1), 'x': D({'b': F(1)})}), 'docs': D({'api': D({'e': F(1)})}),
            'w': D({'lib': D({'c': F(1), 'y': D({'c2': F(1)})}), 'docs': D({'api': D({'d': F(1)})}), 'only': D({'o': F(1)})})}
    cs = []
    for pair in ((['up:w:lib'], ['in:w:lib']), (['up:w:docs/api'], ['in:w:docs/api']), (['absin:w:lib'], ['in:w:lib']), (['absin:w:docs/api'], ['in:w:docs/api']),
                 (['up:w:lib'], ['absin:w:w/lib']), (['up:w:docs'], ['in:w:docs'])):
        for first, second in (pair, pair[::-1]):
            for m in (None, 'dfs'):
                for (a, b) in ((None, None), (None, 1), (2, None)):
                    cs.append({'roots': [[first[0], a, b, m], [second[0], None, None, m]]})
                    cs.append({'roots': [[first[0], None, None, m], ['in:w:only', None, None, None], [second[0], a, b, m]]})
    yield {'tree': same, 'layer': 'same-tail-roots', 'cases': cs}
    # a root spelled through another root of the list (a, a/../b; a/x, a/x/../y): disjoint places, both searched, in both orders
    thru = {'a': D({'a1': F(1), 'x': D({'x1': F(1), 'xx': D({'x2': F(1)})}), 'y': D({'y1': F(1)})}), 'b': D({'b1': F(1), 'bd': D({'b2': F(1)})}), 'ab': D({'c1': F(1)})}
    cs = []
    for first, second in ((['sub:a'], ['thru:a:b']), (['sub:a'], ['thru:a:ab']), (['sub:a/x'], ['thru:a/x:a/y']), (['sub:a/x'], ['thru:a/x:b']), (['sub:a'], ['thru:a/x:b']),
                          (['sub:b'], ['thru:b:a/x']), (['thru:b:a'], ['thru:a:b'])):
        for one, two in ((first, second), (second, first)):
            for m in (None, 'dfs'):
                for (a, b) in ((None, None), (None, 1), (2, None), (1, 2)):
                    cs.append({'roots': [[one[0], None, None, m], [two[0], a, b, m]]})
                    cs.append({'roots': [[one[0], a, b, m], [two[0], None, None, None]]})
    yield {'tree': thru, 'layer': 'roots-through-roots', 'cases': cs}
    # attribute columns in the select list, entries above the depth window, files next to directories, several roots
    att = {'a': F(1), 'b': D({'b1': F(1), 'bd': D({'b2': F(1), 'be': D({'b3': F(1)})})}), 'c': F(2), 'd': D({'d1': F(1), 'dd': D({'d2': F(1)})}), 'e': F(3),
           'r2': D({'z': F(1), 'y': D({'y1': F(1), 'yy': D({'y2': F(1)})})})}
    cs = []
    for cols in (['size'], ['is_dir', 'mode'], ['modified'], ['size', 'is_file', 'hardlinks']):
        for m in (None, 'bfs', 'dfs'):
            for (a, b) in ((2, None), (3, None), (2, 3), (None, None)):
                cs.append({'roots': [['dot', a, b, m]], 'cols': cols})
                cs.append({'roots': [['sub:d', None, None, m], ['sub:b', a, b, m]], 'cols': cols})
                cs.append({'roots': [['sub:r2', a, b, m], ['sub:b', a, b, m], ['sub:d', a, None, m]], 'cols': cols})
    yield {'tree': att, 'layer': 'attribute-columns', 'cases': cs}
    # entries with several names (hard links): every name is an entry of its own
    hl = {'a': F(1), 'b': {'t': 'f', 'link': 'a'}, 'd': D({'c': {'t': 'f', 'link': 'a'}, 'e': F(2), 'deep': D({'f': {'t': 'f', 'link': 'd/e'}, 'g': {'t': 'f', 'link': 'a'}})}),
          'z': D({'h': {'t': 'f', 'link': 'd/e'}, 'i': F(3)})}
    cs = [{'roots': [[r, a, b, m]]} for r in ('dot', 'abs', 'rel', 'omit') for (a, b) in windows(3, True) for m in (None, 'bfs', 'dfs')]
    for m in (None, 'dfs'):
        for (a, b) in ((None, None), (None, 1), (2, None), (1, 1)):
            cs.append({'roots': [['sub:d', a, b, m], ['sub:z', None, None, m]]})
            cs.append({'roots': [['sub:z', a, b, m], ['sub:d', None, None, m]]})
    yield {'tree': hl, 'layer': 'hard-links', 'cases': cs}
    # `unless symlinks is given`: a link to a directory outside the root, whose path is a textual prefix of the root's, is descended
    for mode in (None, 'bfs', 'dfs'):
        for spelling in ('rel', 'abs'):
            yield {'kind': 'symdir', 'mode': mode, 'spelling': spelling, 'layer': 'symlinks-option'}
    # a relative root whose name starts with `~` is a name, not the home directory
    yield {'kind': 'tilde-root', 'layer': 'root-names'}
    yield {'kind': 'rx-roots', 'layer': 'regexp-roots'}
    # the root "/" explored inside a chroot jail
    for sh in core.tree_shapes(3 if tier == 'quick' else 4):
        tree = core.shape_to_tree(sh)
        depth = tree_depth(tree)
        cs = [{'roots': [['slash', a, b, m]], 'jail': True}
              for (a, b) in windows(depth, True) for m in (None, 'dfs')]
        yield {'tree': tree, 'cases': cs, 'layer': 'jail', 'jail': True}
    for sh in shapes:
        tree = core.shape_to_tree(sh)
        yield {'tree': tree, 'cases': cases_for(tree, tier), 'layer': 'shape-%d' % sum(1 for _ in core.walk_tree(tree))}
    for sh in core.tree_shapes(SUBST[tier]):
        tree = core.shape_to_tree(sh)
        for leaf in leaves(tree):
            for kind, mk in SPECIAL:
                name, node = mk()
                t2 = subst(tree, leaf, name, node)
                cs = cases_for(t2, tier, special=True)
                if kind in ('symfile', 'dangling', 'selfloop'):
                    # links that lead to no directory change nothing when `symlinks` is given
                    cs = cs + [dict(c, sym=True) for c in cs if c['roots'][0][0] == 'dot']
                yield {'tree': t2, 'cases': cs, 'layer': 'subst-' + kind}
    # every readdir arrival order (shim) of directories with <= 4 entries
    for sh in shapes:
        tree = core.shape_to_tree(sh)
        widest = max([len(tree)] + [len(n['c']) for _, n, _ in core.walk_tree(tree) if n['t'] == 'd'])
        if widest < 2 or widest > 4:
            continue
        import math
        cs = [{'roots': [['dot', a, b, m]], 'rd': k} for k in range(math.factorial(widest)) for m in (None, 'dfs')
              for (a, b) in ((None, None), (2, None), (None, 2))]
        yield {'tree': tree, 'cases': cs, 'layer': 'readdir-perm'}


def single(case):
    if case.get('kind') == 'symdir':
        return {k: case[k] for k in ('kind', 'mode', 'spelling', 'layer')}
    if case.get('kind') == 'tilde-root':
        return {'kind': 'tilde-root', 'layer': 'root-names', 'only': case['argv']}
    if case.get('kind') == 'rx-roots':
        return {'kind': 'rx-roots', 'layer': 'regexp-roots'}
    return {'tree': case['tree'], 'cases': [{k: v for k, v in case.items() if k != 'tree'}],
            'jail': case.get('jail', False)}


# --------------------------------------------------------------------------- model

def model_rows(tree, a, b):
    """[(relpath, level)] of the entries in the window, symlinks not descended."""
    res = []
    for p, node, lvl in core.walk_tree(tree):
        if (a in (None, 0) or lvl >= a) and (b in (None, 0) or lvl <= b):
            res.append((p, lvl))
    return res


def check_order(rows_lv, mode):
    """rows_lv: list of (relpath, level) in output order for ONE root."""
    if mode in (None, 'bfs'):
        lv = [l for _, l in rows_lv]
        if any(lv[i] > lv[i + 1] for i in range(len(lv) - 1)):
            return 'bfs-level-order'
    else:
        paths = [p for p, _ in rows_lv]
        pset = set(paths)
        for i, p in enumerate(paths):
            desc = {q for q in pset if q.startswith(p + '/')}
            if not desc:
                continue
            block = paths[i + 1:i + 1 + len(desc)]
            if set(block) != desc:
                return 'dfs-subtree-contiguity'
    return None


def root_arg(spec, holder):
    r = spec
    if r == 'omit':
        return None, 't', ''
    if r == 'dot':
        return '.', 't', ''
    if r == 'dotslash':
        return './', 't', ''
    if r == 'rel':
        return 'real/t', 'h', ''
    if r == 'relslash':
        return 'real/t/', 'h', ''
    if r == 'abs':
        return os.path.join(holder, 'real', 't'), 'h', ''
    if r == 'symanc':
        return 'lnk/t', 'h', ''
    if r == 'dotdot':
        return None, 'h', ''   # filled by caller (needs a directory name)
    if r.startswith('sub:'):
        return 'real/t/' + r[4:], 'h', r[4:]
    if r.startswith('up:'):         # ../<target> from inside the sub-directory <cwdsub>
        _, cwdsub, target = r.split(':', 2)
        return '../' + target, 'c:' + cwdsub, target
    if r.startswith('in:'):         # <name> from inside the sub-directory <cwdsub>
        _, cwdsub, name = r.split(':', 2)
        return name, 'c:' + cwdsub, cwdsub + '/' + name
    if r.startswith('absin:'):      # the absolute spelling of <path>, from inside <cwdsub>
        _, cwdsub, path_ = r.split(':', 2)
        return os.path.join(holder, 'real', 't', path_), 'c:' + cwdsub, path_
    if r.startswith('thru:'):       # <b> spelled through <a>: real/t/<a>/..[/..]/<b>
        _, a_, b_ = r.split(':', 2)
        return 'real/t/' + a_ + '/..' * len(a_.split('/')) + '/' + b_, 'h', b_
    if r.startswith('bare:'):       # the bare name of a top-level directory, from inside the tree
        return r[5:], 't', r[5:]
    if r == 'slash':
        return '/', 'j', ''
    raise ValueError(r)


def scale_tree(name):
    if name == 'wide':
        t = {'d%04d' % i: D({'f': F(1)}) for i in range(3000)}
        t.update({'x%03d' % i: F(1) for i in range(300)})
        return t
    t = {}
    for i in reversed(range(64)):       # built from the innermost level outwards
        t = {'l%02d' % i: D(t), 'f%02d' % i: F(1)}
    return t


def eval_symdir(env, group):
    holder = env.newdir('gs')
    core.materialise(holder, {'store': D({'old': F(1), 'sub': D({'deep': F(1)})}), 'store2': D({'new': F(1), 'prev': L('../store'), 'd': D({'x': F(1)})}),
                              'sto': D({'never': F(1)})})
    root = 'store2' if group['spelling'] == 'rel' else os.path.join(holder, 'store2')
    outs = []
    try:
        for sym in (True, False):
            argv = ['path', 'from', root] + (['symlinks'] if sym else []) + ([group['mode']] if group['mode'] else []) + ['into', 'list']
            o = env.run(argv, cwd=holder)
            s2, st = os.path.join(holder, 'store2'), os.path.join(holder, 'store')
            exp = [(s2, 'new'), (s2, 'prev'), (s2, 'd'), (os.path.join(s2, 'd'), 'x')]
            if sym:
                exp += [(st, 'old'), (st, 'sub'), (os.path.join(st, 'sub'), 'deep')]
            got = []
            for p_ in o.rows():
                ap = os.path.normpath(os.path.join(holder, p_))
                got.append((os.path.realpath(os.path.dirname(ap)), os.path.basename(ap)))
            r = {'case': dict(group, sym=sym, argv=argv), 'layer': 'symlinks-option', 'nt': sym, 'trans': len(exp) + 1}
            if o.rc != 0 or o.err or sorted(got) != sorted(exp):
                rel = lambda x: os.path.relpath(os.path.join(*x), holder)
                r.update(status='viol', cls='rows-behind-link' if sym else 'link-descended-without-option', sig=('symdir', sym),
                         detail={'argv': argv, 'missing': sorted(rel(x) for x in exp if x not in got), 'extra': sorted(rel(x) for x in got if x not in exp),
                                 'err': o.brief()['err']})
            else:
                r.update(status='ok', sig=tuple(sorted(got)))
            outs.append(r)
    finally:
        env.rmtree(holder)
    return outs


def eval_tilde(env, group):
    holder = env.newdir('gt')
    core.materialise(holder, {'~bak': D({'f': F(1), 'd': D({'g': F(1)})}), '~': D({'h': F(1)}), 'x~y': D({'i': F(1)}), 'plain': D({'j': F(1)})})
    outs = []
    try:
        for argv, want in ((['path from ~bak into list'], ['~bak/f', '~bak/d', '~bak/d/g']), (["path from '~bak' into list"], ['~bak/f', '~bak/d', '~bak/d/g']),
                           (['path', 'from', '~bak', 'into', 'list'], ['~bak/f', '~bak/d', '~bak/d/g']), (['path from x~y, ~bak maxdepth 1 into list'], ['x~y/i', '~bak/f', '~bak/d']),
                           (['path from ./~ into list'], ['./~/h']), (['path from plain, ~bak/d into list'], ['plain/j', '~bak/d/g'])):
            if group.get('only') is not None and argv != group['only']:
                continue
            o = env.run(argv, cwd=holder)
            r = {'case': {'kind': 'tilde-root', 'argv': argv}, 'layer': 'root-names', 'nt': True, 'trans': len(want) + 1}
            if o.rc != 0 or o.err or sorted(o.rows()) != sorted(want):
                r.update(status='viol', cls='root-name-with-tilde', sig=('tilde',), detail=dict(o.brief(), argv=argv, expected=want))
            else:
                r.update(status='ok', sig=tuple(sorted(want)))
            outs.append(r)
    finally:
        env.rmtree(holder)
    return outs


def eval_rx_roots(env, group):
    """search roots given as regular expressions: the directories whose names match, and nothing else (no match: nothing)"""
    holder = env.newdir('gx')
    core.materialise(holder, {'q1': D({'sub': D({'a': F(1)}), 'o': F(1)}), 'q2': D({'sub': D({'b': F(1), 'dd': D({'c': F(1)})})}), 'xb': D({'n': F(1)}), 'b': D({'m': F(1)}),
                              'a1': D({'k': F(1)}), 'sub': D({'cwd-only': F(1)}), 'plain': D({'p': F(1)}), 'lq': L('q1'), 'lf': L('plain/p')})
    first = holder.split('/')[1]
    rest = '/'.join(holder.split('/')[2:])
    rxfirst = '/' + first[:-1] + '[' + first[-1] + ']/' + rest         # the first segment below / is the expression
    cases = [('q.*/sub', ['q1/sub', 'q2/sub'], ''), ('q[12]', ['q1', 'q2'], ''), ('zz.*/sub', [], ''), (holder + '/zz.*/sub', [], ''), (holder + '/q.*/sub', ['q1/sub', 'q2/sub'], ''),
             ('a.*|b', ['a1', 'b'], ''), ('b|a.*', ['a1', 'b'], ''), ('x?b', ['xb', 'b'], ''), (rxfirst + '/q[1]', ['q1'], ''), (rxfirst + '/pla.*', ['plain'], ' maxdepth 1'),
             ('q.*/nosuch', None, ''), ('[lq].', ['q1', 'q2'], ''), ('[lq].', ['q1', 'q2', 'lq'], ' symlinks'), ('l[q]', ['lq'], ' symlinks'), ('q.*//sub/', ['q1/sub', 'q2/sub'], '')]
    outs = []
    try:
        for pat, dirs_, opts in cases:
            argv = ["path from '%s' rx%s into list" % (pat, opts)]
            if group.get('only') is not None and argv != group['only']:
                continue
            o = env.run(argv, cwd=holder)
            r = {'case': {'kind': 'rx-roots', 'argv': argv}, 'layer': 'regexp-roots', 'nt': True}
            if dirs_ is None:       # a literal segment that does not exist below the matches: reported, nothing listed
                ok = o.rc == 1 and not o.rows()
                want = []
            else:
                want, seen = [], set()
                for d in dirs_:
                    real = os.path.realpath(os.path.join(holder, d))
                    for dp, dns, fns in os.walk(real):
                        if opts == ' maxdepth 1' and dp != real:
                            continue
                        for n in dns + fns:
                            if (dp, n) not in seen:
                                seen.add((dp, n))
                                want.append((dp, n))
                got = []
                for p_ in o.rows():
                    ap = os.path.normpath(os.path.join(holder, p_))
                    got.append((os.path.realpath(os.path.dirname(ap)), os.path.basename(ap)))
                ok = o.rc == 0 and not o.err and sorted(got) == sorted(want)
            r['trans'] = len(want) + 1
            if not ok:
                r.update(status='viol', cls='regexp-root', sig=('rxroot',), detail=dict(o.brief(), argv=argv, expected=[os.path.relpath(os.path.join(*w), holder) for w in want][:12]))
            else:
                r.update(status='ok', sig=(pat, opts))
            outs.append(r)
    finally:
        env.rmtree(holder)
    return outs


def eval_group(env, group, tier):
    if group.get('kind') == 'rx-roots':
        return eval_rx_roots(env, group)
    if group.get('kind') == 'symdir':
        return eval_symdir(env, group)
    if group.get('kind') == 'tilde-root':
        return eval_tilde(env, group)
    tree = group['tree']
    if isinstance(tree, str):
        tree = scale_tree(tree)
    jail = group.get('jail')
    holder = env.newdir('g')
    os.mkdir(os.path.join(holder, 'real'))
    troot = os.path.join(holder, 'real', 't')
    os.mkdir(troot)
    core.materialise(troot, tree)
    os.symlink('real', os.path.join(holder, 'lnk'))
    topdirs = [n for n, nd in tree.items() if nd['t'] == 'd']
    jail_tree = None
    if jail:
        jail_tree = core.make_jail(env, troot)
    outs = []
    try:
        for case in group['cases']:
            outs.append(eval_case(env, tree, holder, troot, topdirs, case, group.get('layer'), jail_tree))
    finally:
        env.rmtree(holder)
    return outs


def eval_case(env, tree, holder, troot, topdirs, case, layer, jail_tree):
    # (the walk must not depend on what the select list makes the program look up about each entry)
    argv = ['path' + ''.join(', ' + c_ for c_ in case.get('cols', []))]
    cwdkind = None
    expected = []      # per root: list of (relpath, level)
    subs = []
    for i, (r, a, b, m) in enumerate(case['roots']):
        arg, ck, sub = root_arg(r, holder)
        if r == 'dotdot':
            arg, sub = 'real/t/%s/..' % topdirs[0], ''
        cwdkind = ck
        if arg is not None:
            argv += ['from', arg] if i == 0 else [',', arg]
        if case.get('sym'):
            argv += ['symlinks']
        if a is not None:
            argv += ['mindepth', str(a)]
        if b is not None:
            argv += ['maxdepth', str(b)]
        if m:
            argv += [m]
        subs.append(sub)
        subtree = tree
        for part in (sub.split('/') if sub else []):
            subtree = subtree[part]['c']
        if jail_tree is not None:
            subtree = jail_tree
        pre = sub + '/' if sub else ''
        expected.append([(pre + p, l) for p, l in model_rows(subtree, a, b)])
    argv += ['into', 'list']
    cwd = os.path.join(troot, cwdkind[2:]) if cwdkind.startswith('c:') else {'t': troot, 'h': holder, 'j': '/'}[cwdkind]
    if jail_tree is not None:
        o = core.run_jailed(env, troot, argv)
        base = '/'
    else:
        if case.get('rd') is not None:
            o = env.run(argv, cwd=cwd, preload=True, env={'FSX_READDIR': 'perm:%d' % case['rd']})
        else:
            o = env.run(argv, cwd=cwd, nofile=case.get('nofile'))
        base = troot
    full = dict(case, tree=tree if len(tree) < 100 and 'l00' not in tree else ('wide' if len(tree) > 100 else 'deep'))
    res = {'case': full, 'layer': layer, 'trans': sum(len(e) for e in expected) + 1}
    exp_all = sorted(p for e in expected for p, _ in e)
    ntotal = len(jail_tree and list(core.walk_tree(jail_tree)) or list(core.walk_tree(tree)))
    res['nt'] = 0 < len(exp_all) < ntotal or len({l for e in expected for _, l in e}) >= 2

    def viol(cls, detail):
        res.update(status='viol', cls=cls, detail=detail, sig=(cls,))
        return res

    if o.timeout:
        return viol('hang', o.brief())
    if case.get('nofile') and o.rc == 1 and b'Too many open files' in o.err and any(m == 'dfs' for _, _, _, m in case['roots']) \
            and core.known('C01-dfs-descriptor-per-level'):
        # recorded finding: the depth-first walk keeps one directory open per level (the breadth-first walk of the same tree is complete)
        res.update(status='known', cls='C01-dfs-descriptor-per-level', detail=dict(o.brief(), argv=argv, nofile=case['nofile']), sig=('known-dfs-fd',))
        return res
    if o.rc != 0 or o.err:
        return viol('status-or-stderr', dict(o.brief(), argv=argv))
    rows = o.rows()
    if case.get('cols'):
        rows = [r_[0] for r_ in (o.rows(1 + len(case['cols'])) or [])]
    if case.get('lossy'):
        lossy = lambda t: t.encode('utf-8', 'surrogateescape').decode('utf-8', 'replace')
        pre = {'dot': './', 'abs': troot + '/', 'rel': 'real/t/'}[case['roots'][0][0]]
        want = sorted(lossy(pre + p) for p in exp_all)
        have = sorted(lossy(r_) for r_ in rows)
        if want != have:
            return viol('rows-differ-non-utf8-names', {'argv': argv, 'n_got': len(have), 'n_expected': len(want),
                                                       'missing': [x for x in want if x not in have][:5]})
        res.update(status='ok', sig=(len(have),))
        return res
    got = []
    for p in rows:
        if jail_tree is not None:
            got.append(os.path.normpath(p).lstrip('/'))
            continue
        ap = os.path.join(cwd, p)
        d = os.path.realpath(os.path.dirname(ap))
        got.append(os.path.relpath(os.path.join(d, os.path.basename(ap)), base))
    if sorted(got) != exp_all:
        missing = sorted(set(exp_all) - set(got))
        extra = sorted(set(got) - set(exp_all))
        dup = sorted({g for g in got if got.count(g) > 1})
        cls = 'rows-missing' if missing and not extra else 'rows-extra' if extra and not missing else \
            'rows-duplicated' if dup and not missing and not extra else 'rows-differ'
        return viol(cls, {'argv': argv, 'missing': missing, 'extra': extra, 'dup': dup, 'got': got})
    # ordering laws, per root (rows of different roots are told apart by their sub prefix)
    lvl = {}
    for e in expected:
        lvl.update(dict(e))
    for i, (r, a, b, m) in enumerate(case['roots']):
        mine = [(g, lvl[g]) for g in got if g in dict(expected[i])]
        if subs[i]:
            mine = [(g, l) for g, l in mine if g.startswith(subs[i] + '/')]
        bad = check_order(mine, m)
        if bad:
            return viol(bad, {'argv': argv, 'rows': got})
    # roots are searched in the order given
    res.update(status='ok', sig=(tuple(got),))
    return res
