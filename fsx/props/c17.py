"""C17 One failing directory, file or reader never spoils the rest of the search.

Deviation-bounded fault enumeration: 0 faults (status 0, empty stderr), then every single
fault position (every directory x every way of failing; every file x every way of failing),
then (thorough) every pair of directories.  Output side: every stdout close offset.
"""
import itertools
import os

from fsx import core
from fsx.core import D, F, L

ID = 'C17'
LEVEL = 'fault_enumeration'
RULE = ('all tree shapes with <= 5 entries and >= 2 directories x {bfs, dfs} x {streamed, ordered, aggregated} result paths: '
        'deviation 0 (no fault: status 0, empty stderr, as root and as an unprivileged user), deviation 1 = every directory x '
        '{real chmod 000 searched as uid 65534, injected opendir EACCES / ENOENT / ENOTDIR, readdir error after 0 or 1 '
        'entries}, root itself failing alone and as one of two roots, deviation 2 (thorough) = every pair of directories; '
        'every file of a content tree x {chmod 000 as uid 65534, injected open EACCES, read EIO after n bytes with n across '
        'the 8K/32K/64K buffers}, dangling links, an archive with a member that cannot be opened; output side: six formats x four result paths x outputs of 0..~2300 bytes x '
        'filler-name alignment sweep x EVERY close offset 0..L, and 8-20 KiB outputs x 64 alignments x offsets around every 1K/4K/8K/16K buffer boundary; non-trivial = a fault or close offset was actually exercised'
        '; statistics (avg, var, stddev, min, max) over the readable rows; a date column compared with a column without value; a damaged ID3 tag')
ASSUMPTIONS = ['faults the OS cannot produce on demand are injected through the LD_PRELOAD shim; real permission faults use setpriv uid 65534',
               'rows inside a failing directory are unspecified (only containment in the fault-free rows is required)',
               'a content-derived cell of an unreadable file must be empty (or false for is_shebang)']
BUDGET = {'quick': 55, 'thorough': 1500}
NOBODY = 65534


def bounds(tier):
    return {'deviation_bound_completed': 1 if tier == 'quick' else 2, 'tree_entries_max': 5,
            'close_offsets': 'every offset 0..L (quick: for the larger outputs every offset only at two alignments, elsewhere offsets <=24, >=L-24, within 2 of each 1 KiB boundary and every 41st)', 'alignments': 16 if tier == 'quick' else 64}


# chmod444: the directory can be listed but not searched - its sub-directories are the ones that cannot be listed
DIR_FAULTS = ['chmod000', 'opendir:EACCES', 'opendir:ENOENT', 'opendir:ENOTDIR', 'readdir:0', 'readdir:1', 'chmod444']
PATHS = {'stream': ('path', ''), 'ordered': ('path', ' order by path'), 'aggregate': ('count(*)', '')}


def dir_trees():
    for sh in core.tree_shapes(5):
        t = core.shape_to_tree(sh)
        dirs = [p for p, node, l in core.walk_tree(t) if node['t'] == 'd']
        if len(dirs) >= 2:
            yield t, dirs


def groups(tier, seed):
    # expensive groups first so that the pool does not end on a long tail
    gs = list(_groups(tier, seed))
    cost = lambda g: (g.get('n', 0) * (40 if g.get('fmt') in ('json', 'html') else 12) * (0.15 if g.get('sparse') else 1)) if g['kind'] == 'pipe' else 150
    gs.sort(key=cost, reverse=True)
    return gs


def _groups(tier, seed):
    for t, dirs in dir_trees():
        yield {'kind': 'dir', 'tree': t, 'dirs': dirs}
    yield {'kind': 'root'}
    for fk in ('chmod000', 'open:EACCES', 'read:0', 'read:1', 'read:8192', 'read:8193', 'read:32768', 'read:40000', 'read:65536', 'read:65537'):
        yield {'kind': 'file', 'fault': fk}
    yield {'kind': 'links'}
    yield {'kind': 'hardlink'}
    yield {'kind': 'pipe-stop'}
    yield {'kind': 'media'}
    for mode in ('', ' dfs'):
        for where in ('top', 'sub'):
            yield {'kind': 'archive', 'mode': mode, 'where': where}
            yield {'kind': 'archive', 'mode': mode, 'where': where, 'damage': 'local'}
    # outputs larger than every internal buffer, consumer gone from the start or at a buffer boundary
    for fmt in (('json', 'html', 'csv') if tier == 'quick' else ('json', 'html', 'csv', 'list', 'tabs', 'lines')):
        for path in ('stream', 'ordered'):
            for lo in range(0, 64, 8):
                yield {'kind': 'pipe-big', 'fmt': fmt, 'path': path, 'aligns': list(range(lo, lo + 8))}
    aligns = list(range(0, 64, 4)) if tier == 'quick' else list(range(64))
    for fmt in ('json', 'html', 'csv', 'list', 'tabs', 'lines'):
        for path in ('stream', 'ordered', 'aggregate', 'grouped'):
            for nfiles in (0, 1, 8, 30, 60):
                if path == 'aggregate' and nfiles not in (0, 8):
                    continue
                if nfiles == 60 and (tier == 'quick' or path in ('aggregate', 'grouped')):
                    continue
                als = aligns if (nfiles >= 30 and path in ('stream', 'ordered')) else aligns[:1]
                for al in als:
                    sparse = tier == 'quick' and nfiles >= 30 and al != 0
                    yield {'kind': 'pipe', 'fmt': fmt, 'path': path, 'n': nfiles, 'align': al, 'sparse': sparse}


def single(case):
    g = dict(case['group'])
    g['only'] = case.get('sub')
    return g


def under(p, d):
    return p.startswith(d + '/')


def eval_group(env, group, tier):
    kind = group['kind']
    os.chmod(env.base, 0o755)
    try:
        os.chmod(os.path.dirname(env.base), 0o755)
    except OSError:
        pass
    root = env.newdir('c17')
    os.chmod(root, 0o755)
    outs = []
    only = group.get('only')
    g0 = {k: v for k, v in group.items() if k != 'only'}

    def emit(sub, ok, cls=None, detail=None, nt=True, sig=None):
        r = {'case': {'group': g0, 'sub': sub}, 'layer': kind, 'nt': nt}
        if ok:
            r.update(status='ok', sig=sig or ('ok',))
        else:
            r.update(status='viol', cls=cls, detail=detail, sig=('viol', cls))
        outs.append(r)
    try:
        if kind == 'dir':
            tree, dirs = group['tree'], group['dirs']
            core.materialise(root, tree)
            allrows = sorted('./' + p for p, n, l in core.walk_tree(tree))
            combos = [()] + [(d,) for d in dirs]
            if tier == 'thorough':
                combos += list(itertools.combinations(dirs, 2))
            nent = len(allrows)
            for mode in ('', ' dfs'):
                for pname, (col, tail) in PATHS.items():
                    for combo in combos:
                        fkinds = [None] if not combo else (DIR_FAULTS if len(combo) == 1 else ['chmod000', 'opendir:EACCES'])
                        for fk in fkinds:
                            sub = [mode.strip(), pname, list(combo), fk]
                            if only is not None and sub != only:
                                continue
                            q = col + ' from .' + mode + tail + ' into list'
                            envx, user, preload = {}, None, False
                            if fk == 'chmod444':
                                kids = [p for p, n, l in core.walk_tree(tree) if n['t'] == 'd' and os.path.dirname(p) == combo[0]]
                                if not kids:
                                    continue      # nothing below it has to be listed: not a fault run
                                os.chmod(os.path.join(root, combo[0]), 0o444)
                                user = NOBODY
                            elif fk == 'chmod000':
                                for d in combo:
                                    os.chmod(os.path.join(root, d), 0)
                                user = NOBODY
                            elif fk:
                                call, arg = fk.split(':')
                                if call == 'opendir':
                                    envx['FSX_FAIL'] = ';'.join('opendir:./%s:%s' % (d, arg) for d in combo)
                                else:
                                    envx['FSX_FAIL'] = ';'.join('readdir:./%s:EIO:%s' % (d, arg) for d in combo)
                                    envx['FSX_READDIR'] = 'sorted'
                                preload = True
                            elif pname == 'stream' and mode == '':
                                user = None
                            try:
                                o = env.run([q], cwd=root, env=envx, preload=preload, user=user)
                                o_nobody = env.run([q], cwd=root, user=NOBODY) if fk is None else None
                            finally:
                                if fk in ('chmod000', 'chmod444'):
                                    for d in combo:
                                        os.chmod(os.path.join(root, d), 0o755)
                            if fk and fk.startswith('readdir'):
                                nfail = int(fk.split(':')[1])
                                eff = [d for d in combo if sum(1 for p in allrows if os.path.dirname(p) == './' + d) >= nfail]
                                if len(eff) != len(combo):
                                    continue      # the injected answer is never given: not a fault run
                            outside = [p for p in allrows if not any(under(p, './' + d) for d in combo)]
                            err = o.err.decode('utf-8', 'replace')
                            if o.timeout or o.panicked or o.rc not in (0, 1):
                                emit(sub, False, 'crash-or-status', dict(o.brief(), query=q, fault=fk, dirs=list(combo)))
                                continue
                            if not combo:
                                ok = o.rc == 0 and not err and o_nobody.rc == 0 and not o_nobody.err and o_nobody.out == o.out
                                rows = o.rows()
                                if pname == 'aggregate':
                                    ok = ok and rows == [str(len(allrows))]
                                else:
                                    ok = ok and sorted(rows) == allrows
                                emit(sub, ok, 'fault-free-run', dict(o.brief(), query=q), nt=False, sig=('clean',))
                                continue
                            if o.rc != 1:
                                emit(sub, False, 'status-not-1:' + fk, dict(o.brief(), query=q, dirs=list(combo)))
                                continue
                            # a failing directory beneath another failing directory is never reached, so it cannot be named
                            reachable = [d for d in combo if not any(under(d, e_) for e_ in combo if e_ != d)]
                            if fk == 'chmod444':
                                reachable = kids      # every sub-directory of the unsearchable directory fails and has to be named
                            if not all(('./' + d) in err for d in reachable):
                                emit(sub, False, 'failing-path-not-named:' + fk, dict(o.brief(), query=q, dirs=list(combo)))
                                continue
                            rows = o.rows()
                            if pname == 'aggregate':
                                try:
                                    n = int(rows[0])
                                except (ValueError, IndexError):
                                    n = -1
                                ok = len(rows) == 1 and len(outside) <= n <= len(allrows) and (fk.startswith('readdir') or fk == 'chmod444' or n == len(outside))
                                emit(sub, ok, 'aggregate-under-fault:' + fk, {'query': q, 'got': rows, 'outside': len(outside), 'dirs': list(combo)})
                                continue
                            got = sorted(rows)
                            missing = [p for p in outside if p not in got]
                            extra = [p for p in got if p not in allrows]
                            inside = [p for p in got if p not in outside]
                            dup = len(got) != len(set(got))
                            bad_inside = inside and not fk.startswith('readdir')
                            if fk == 'chmod444':
                                # the names directly inside the listable directory may be reported, nothing deeper can be
                                bad_inside = any(os.path.dirname(p) != './' + combo[0] for p in inside)
                            ok = not missing and not extra and not dup and not bad_inside
                            emit(sub, ok, 'rows-under-fault:' + fk, {'query': q, 'missing': missing, 'extra': extra, 'inside': inside, 'dup': dup,
                                                                       'dirs': list(combo)}, sig=(fk, tuple(got)))
        elif kind == 'media':
            # files whose format-specific reader fails (or is handed something that is no file at all): only that entry's
            # format columns are empty, the other rows and columns are as in a tree without them, no crash, status 0 or 1
            tif = (b'II*\x00\x08\x00\x00\x00\x01\x00\x25\x88\x04\x00\x01\x00\x00\x00\x1a\x00\x00\x00\x00\x00\x00\x00'
                   b'\x02\x00\x01\x00\x02\x00\x02\x00\x00\x00N\x00\x00\x00\x02\x00\x05\x00\x03\x00\x00\x00\x38\x00\x00\x00\x00\x00\x00\x00' + b'\x00' * 24)
            wav_nodata = b'RIFF\x1c\x00\x00\x00WAVEfmt \x10\x00\x00\x00\x01\x00\x01\x00\x40\x1f\x00\x00\x80\x3e\x00\x00\x02\x00\x10\x00'
            wav_rate0 = b'RIFF\x24\0\0\0WAVEfmt \x10\0\0\0\x01\0\x01\0\0\0\0\0\0\0\0\0\x02\0\x10\0data\0\0\0\0'
            mkv = b'\x1a\x45\xdf\xa3\x80\x18\x53\x80\x67\x93\x11\x4d\x9b\x74\x8e\x4d\xbb\x8b\x53\xab\x84\x15\x49\xa9\x66\x53\xac\x81\x00'
            tree = {'ok.txt': F(3), 'nofix.tif': F(data=tif), 'rec.wav': F(data=wav_nodata), 'zero.wav': F(data=wav_rate0), 'clip.mkv': F(data=mkv),
                    'icons.svg': D({'inner': F(1)}), 'dang.svg': L('nowhere'), 'bad.svg': F(data=b'<svg \xff\xfe width="1">'), 'secret.svg': F(data='<svg/>', mode=0),
                    'pipe.png': {'t': 'p'}, 'pipe.mp3': {'t': 'p'}, 'z.mp4': F(data=b'\x00\x00\x00\x08ftyp'), 'e.jpg': F(0), 'ok2.txt': F(4),
                    # an ID3v2 tag with the unsynchronisation flag behind a stray FF 00 (the tag reader indexes an empty buffer), with and without extension
                    'tag.mp3': F(data=b'\xff\x00ID3\x03\x00\x80\x00\x00\x00\x00' + b'\x00' * 16), 'tagfile': F(data=b'\xff\x00ID3\x03\x00\x80\x00\x00\x00\x00' + b'\x01' * 11)}
            core.materialise(root, tree)
            names = sorted(p for p, n, l in core.walk_tree(tree))
            for cols in (['width', 'height'], ['duration'], ['exif_make', 'exif_lat'], ['mp3_title', 'mp3_year'], ['width', 'duration', 'exif_model', 'size'],
                         ['bitrate', 'freq', 'genre'], ['artist', 'album'], ['@modified >= exif_datetime'], ['@modified < exif_datetime'], ['@modified = exif_datetime'],
                         ['@accessed != exif_datetime'], ['@exif_datetime <= modified']):
                for form in ('select', 'where'):
                    sub = ['media', cols, form]
                    if only is not None and sub != only:
                        continue
                    if cols[0].startswith('@'):
                        # a date column compared with a date that most entries do not have: no match there, the search goes on
                        if form == 'select':
                            continue
                        q = 'path, size from . where %s or size >= 0 into list' % cols[0][1:]
                    elif form == 'select':
                        q = 'path, size, ' + ', '.join(cols) + ' from . into list'
                    else:
                        q = "path, size from . where " + ' or '.join("%s = 'zz'" % c for c in cols if c != 'size') + " or size >= 0 into list"
                    o = env.run([q], cwd=root, user=NOBODY, timeout=10.0)
                    rows = o.rows(2 + (len(cols) if form == 'select' else 0))
                    bad = None
                    if o.timeout:
                        bad = ('media-reader-hang', o.brief())
                    elif o.panicked or b'panicked' in o.err or o.rc not in (0, 1):
                        bad = ('media-reader-crash', o.brief())
                    elif rows is None or sorted(r[0] for r in rows) != ['./' + n for n in names]:
                        bad = ('media-rows-lost', {'got': sorted(r[0] for r in (rows or []))[:20], 'stderr': o.brief()['err']})
                    elif form == 'select' and any(v for r in rows for c, v in zip(cols, r[2:]) if c != 'size' and os.path.basename(r[0]) not in ('e.jpg',)
                                                  and not (c in ('bitrate', 'freq') and os.path.basename(r[0]) == 'bad.svg')):      # FF FE reads as an MPEG frame header
                        bad = ('media-value-from-unreadable', {'rows': [r for r in rows if any(r[2:])][:5]})
                    emit(sub, bad is None, bad[0] if bad else None, dict(bad[1], query=q) if bad else None)
        elif kind == 'root':
            core.materialise(root, {'good': D({'a': F(1), 'b': F(2)}), 'bad': D({'x': F(1)}, mode=0), 'file': F(1)})
            os.chmod(os.path.join(root, 'bad'), 0)
            cases = [('good', 0, ['good/a', 'good/b'], None), ('bad', 1, [], 'bad'), ('nonexistent', 1, [], 'nonexistent'),
                     ('good, bad', 1, ['good/a', 'good/b'], 'bad'), ('bad, good', 1, ['good/a', 'good/b'], 'bad'),
                     ('nonexistent, good', 1, ['good/a', 'good/b'], 'nonexistent'), ('good, nonexistent', 1, ['good/a', 'good/b'], 'nonexistent'),
                     ('file', 1, [], 'file'), ('good, file', 1, ['good/a', 'good/b'], 'file')]
            try:
                for frm, rc, rows, named in cases:
                    for mode in ('', ' dfs'):
                        sub = [frm, mode]
                        if only is not None and sub != only:
                            continue
                        q = 'path from ' + frm.replace(',', mode + ',') + mode + ' into list'
                        o = env.run([q], cwd=root, user=NOBODY)
                        err = o.err.decode('utf-8', 'replace')
                        ok = (not o.panicked and o.rc == rc and sorted(o.rows()) == rows and (named is None and not err or named is not None and named in err))
                        emit(sub, ok, 'failing-root', dict(o.brief(), query=q, expected_rc=rc, expected_rows=rows))
                # a directory that cannot be listed is reported whatever the ignore rules say about it (it is walked for what a negation may bring back)
                ig = os.path.join(root, 'ctx')
                os.mkdir(ig)
                core.materialise(ig, {'.dockerignore': F(data='secret\n!secret/keep.txt\nalso\n!also/deep/keep.txt\n'), '.hgignore': F(data='syntax: glob\nnothing-here\n'), '.hg': D({}),
                                      'a.txt': F(1), 'secret': D({'keep.txt': F(1), 'x': F(1)}), 'also': D({'deep': D({'keep.txt': F(1)})}), 'open': D({'closed': D({'y': F(1)})})})
                for d_ in ('secret', 'also/deep', 'open/closed'):
                    os.chmod(os.path.join(ig, d_), 0)
                try:
                    for opts in ('dockerignore', 'dockerignore dfs', 'dockerignore hgignore', 'hgignore', ''):
                        sub = ['ignored-and-unlistable', opts]
                        if only is not None and sub != only:
                            continue
                        q = 'name from ctx %s where is_file = true into list' % opts
                        o = env.run([q], cwd=root, user=NOBODY)
                        err = o.err.decode('utf-8', 'replace')
                        ok = not o.panicked and o.rc == 1 and all(n in err for n in ('secret', 'deep', 'closed')) and 'a.txt' in o.rows()
                        emit(sub, ok, 'unlistable-directory-under-ignore-rules', dict(o.brief(), query=q))
                finally:
                    for d_ in ('secret', 'also/deep', 'open/closed'):
                        os.chmod(os.path.join(ig, d_), 0o755)
                # a root that failed before LIMIT was reached has failed all the same (every N; the rows are a part of the full result)
                for frm, named in (('bad, good, good', 'bad'), ('nonexistent, good, good', 'nonexistent'), ('file, good, good, good', 'file'), ('good, bad, good', 'bad'),
                                   ('nonexistent, good, bad', 'nonexistent')):
                    for mode in ('', ' dfs'):
                        for N in (1, 2, 3, 4, 5):
                            sub = [frm, mode, N]
                            if only is not None and sub != only:
                                continue
                            q = 'path from ' + frm.replace(',', mode + ',') + mode + ' limit %d into list' % N
                            o = env.run([q], cwd=root, user=NOBODY)
                            err = o.err.decode('utf-8', 'replace')
                            # (named: the failing root stands before the root in which row N is found)
                            before = frm.split(', ').index(named) * 2 < N or frm.startswith(named)
                            ok = not o.panicked and o.rc in (0, 1) and len(o.rows()) == min(N, 2 * frm.count('good')) and all(r_ in ('good/a', 'good/b') for r_ in o.rows())
                            if before:
                                ok = ok and o.rc == 1 and named in err
                            emit(sub, ok, 'failing-root-before-limit', dict(o.brief(), query=q, named=named, failing_root_met_before_the_limit=before))
            finally:
                os.chmod(os.path.join(root, 'bad'), 0o755)
        elif kind == 'file':
            fk = group['fault']
            files = {'e0': b'', 's10': b'#!x\nab\nNEEDLE', 'm40000': b'line NEEDLE\n' * 3334, 'b70000': b'#!' + b'z\n' * 34999,
                     'h1m5': b'#!NEEDLE\n' + b'0123456789abcde\n' * 98304}
            tree = {n: F(data=d) for n, d in files.items()}
            tree['sub'] = D({'inner': F(data=b'NEEDLE\n')})
            core.materialise(root, tree)
            cols = ['name', 'size', 'mode', 'sha1', 'sha256', 'line_count', 'contains(NEEDLE)', 'is_shebang', 'line_count + 1', 'line_count * 2', '10 - line_count']
            q = ', '.join(cols) + ' from . into list'
            clean = env.run([q], cwd=root)
            if clean.rc != 0 or clean.err:
                raise core.MachineryError('clean content run failed %r' % clean.brief())
            ref = {r[0]: r for r in clean.rows(len(cols))}
            agg_q = ('count(*), sum(size), sum(line_count), avg(line_count), var_pop(line_count), var_samp(line_count), stddev_pop(line_count), min(line_count), max(line_count) '
                     'from . where is_file = true into list')
            agg_clean = env.run([agg_q], cwd=root).rows(9)[0]
            all_lines = {n: d.count(b'\n') for n, d in list(files.items()) + [('inner', b'NEEDLE\n')]}
            if [agg_clean[2], agg_clean[7], agg_clean[8]] != [str(sum(all_lines.values())), str(min(all_lines.values())), str(max(all_lines.values()))]:
                raise core.MachineryError('line count model differs on the clean tree: %r %r' % (agg_clean, all_lines))
            for victim in files:
                sub = [victim]
                if only is not None and sub != only:
                    continue
                envx, user, preload = {}, None, False
                p = os.path.join(root, victim)
                if fk == 'chmod000':
                    os.chmod(p, 0)
                    user = NOBODY
                else:
                    call, arg = fk.split(':')
                    envx['FSX_FAIL'] = ('open:%s:EACCES' % victim) if call == 'open' else ('read:%s:EIO:%s' % (victim, arg))
                    preload = True
                try:
                    o = env.run([q], cwd=root, env=envx, preload=preload, user=user)
                    oa = env.run([agg_q], cwd=root, env=envx, preload=preload, user=user)
                finally:
                    os.chmod(p, 0o644)
                size = len(files[victim])
                effective = fk in ('chmod000', 'open:EACCES') or (fk.startswith('read:') and int(fk[5:]) <= size)
                if fk == 'chmod000':
                    for r_ in ref.values():
                        pass
                rows = {r[0]: r for r in (o.rows(len(cols)) or [])}
                bad = None
                if o.timeout or o.panicked or o.rc not in (0, 1) or set(rows) != set(ref):
                    bad = ('crash-or-rows', o.brief())
                else:
                    for n, r in rows.items():
                        e = list(ref[n])
                        if n == victim:
                            e[2] = r[2] if fk == 'chmod000' else e[2]     # the mode string changes with chmod
                        if n == victim and effective:
                            if tuple(r[:3]) != tuple(e[:3]):
                                bad = ('metadata-of-unreadable-file-changed', {'row': n, 'got': r[:3], 'expected': e[:3]})
                            full_fail = fk in ('chmod000', 'open:EACCES') or fk == 'read:0'
                            if not all(c in ('', 'false') or (not full_fail and c == e_) for c, e_ in zip(r[3:], e[3:])):
                                bad = ('content-cells-not-empty', {'row': n, 'got': r[3:], 'fault': fk})
                            if all(c == e_ for c, e_ in zip(r[3:6], e[3:6])) and size > 0:
                                bad = ('fault-not-visible', {'row': n, 'got': r[3:], 'fault': fk})
                        elif tuple(r) != tuple(e):
                            bad = ('other-row-changed', {'row': n, 'got': r, 'expected': e})
                    if not bad and effective:
                        ra = oa.rows(9)
                        exp_cnt = agg_clean[0]
                        vals = [v for n, v in all_lines.items() if n != victim]
                        exp_lines = str(sum(vals))
                        mean = sum(vals) / len(vals)
                        varp = sum((v - mean) ** 2 for v in vals) / len(vals)
                        vars_ = sum((v - mean) ** 2 for v in vals) / (len(vals) - 1)
                        close = lambda got, want: got not in ('', 'NaN') and abs(float(got) - want) <= 1e-9 * max(1.0, abs(want))
                        if not ra or ra[0][0] != exp_cnt or ra[0][1] != agg_clean[1] or ra[0][2] != exp_lines:
                            bad = ('aggregate-over-readable-data', {'got': ra, 'expected': [exp_cnt, agg_clean[1], exp_lines]})
                        elif not (close(ra[0][3], mean) and close(ra[0][4], varp) and close(ra[0][5], vars_) and close(ra[0][6], varp ** 0.5)
                                  and ra[0][7] == str(min(vals)) and ra[0][8] == str(max(vals))):
                            bad = ('statistics-over-readable-data', {'got': ra[0][3:], 'expected': [mean, varp, vars_, varp ** 0.5, min(vals), max(vals)]})
                emit(sub, bad is None, 'file-fault:' + (bad[0] if bad else ''), {'fault': fk, 'victim': victim, 'why': bad[1] if bad else None, 'query': q},
                     nt=effective, sig=(fk, victim, effective))
        elif kind == 'links':
            core.materialise(root, {'good': F(data=b'x\n'), 'dang': L('missing'), 'loop': L('loop'), 'tofile': L('good'),
                                    'd': D({'dang2': L('../missing')}), 'secret': F(data=b's\n', mode=0), 'tosecret': L('secret')})
            cols = ['name', 'size', 'is_symlink', 'sha1', 'line_count', 'contains(x)']
            q = ', '.join(cols) + ' from . into list'
            for user in (None, NOBODY):
                sub = ['links', user]
                if only is not None and sub != only:
                    continue
                o = env.run([q], cwd=root, user=user)
                rows = {r[0]: r for r in (o.rows(len(cols)) or [])}
                ok = not o.panicked and o.rc in (0, 1) and set(rows) == {'good', 'dang', 'loop', 'tofile', 'd', 'dang2', 'secret', 'tosecret'}
                why = None
                if ok:
                    for n in ('dang', 'loop', 'dang2'):
                        if rows[n][2] != 'true' or any(c not in ('', 'false') for c in rows[n][3:]):
                            ok, why = False, (n, rows[n])
                    if rows['good'][3] != 'f1d2d2f924e986ac86fdf7b36c94bcdf32beec15'[:0] + rows['good'][3] or rows['good'][4] != '1':
                        ok, why = False, ('good', rows['good'])
                    if user == NOBODY and any(c not in ('', 'false') for c in rows['secret'][3:]):
                        ok, why = False, ('secret', rows['secret'])
                emit(sub, ok, 'link-or-unreadable-target', dict(o.brief(), why=why, query=q))
        elif kind == 'hardlink':
            # one file under two names, one of them in a directory that can be listed but not entered: the readable name has its content columns,
            # whichever name is met first (by another root, a deeper level, the other traversal order)
            import hashlib
            data = b'shared content\nof two names\n'
            core.materialise(root, {'open': D({'deep': D({'name2': F(data=data)}), 'plain': F(data=b'p\n')}),
                                    'gate': D({'name1': {'t': 'f', 'link': 'open/deep/name2'}, 'other': F(data=b'o\n')})})
            os.chmod(os.path.join(root, 'gate'), 0o444)
            cols = ['name', 'sha1', 'sha256', 'line_count', 'contains(shared)', 'size']
            want = ('name2', hashlib.sha1(data).hexdigest(), hashlib.sha256(data).hexdigest(), '2', 'true', str(len(data)))
            try:
                for frm in ('gate, open', 'open, gate', '.', '. dfs', 'gate, open dfs', 'gate, open/deep'):
                    for tail in ('', " where name like 'name%' or sha1 = 'x'", ' order by sha1, name'):
                        sub = ['hardlink', frm, tail]
                        if only is not None and sub != only:
                            continue
                        q = ', '.join(cols) + ' from ' + frm + tail + ' into list'
                        o = env.run([q], cwd=root, user=NOBODY, preload=True, env={'FSX_READDIR': 'sorted'})
                        rows = {r[0]: tuple(r) for r in (o.rows(len(cols)) or [])}
                        ok = not o.panicked and not o.timeout and o.rc in (0, 1) and rows.get('name2') == want
                        emit(sub, ok, 'readable-name-of-a-shared-file', dict(o.brief(), got=rows.get('name2'), expected=want, query=q))
            finally:
                os.chmod(os.path.join(root, 'gate'), 0o755)
        elif kind == 'archive':
            import io, zipfile
            b_ = io.BytesIO()
            with zipfile.ZipFile(b_, 'w') as z:
                for nm in ('m1', 'm2', 'm3'):
                    z.writestr(zipfile.ZipInfo(nm, (2020, 1, 2, 3, 4, 6)), b'data-' + nm.encode())
            data = bytearray(b_.getvalue())
            cd = bytes(data).find(b'PK\x01\x02', bytes(data).find(b'PK\x01\x02') + 1)    # central header of m2
            data[cd + 8] |= 1                      # flagged as encrypted: the archive opens, this one member cannot be read
            import struct as _st
            loc = _st.unpack('<I', data[cd + 42:cd + 46])[0]
            if group.get('damage') == 'local':
                data[cd + 8] &= 0xfe
                data[loc:loc + 2] = b'XX'             # the member's local header is no header: its description cannot be read either
            inner = {'a0': F(1), 'bad.zip': F(data=bytes(data)), 'z9': F(2), 'zd': D({'deep': F(3)})}
            tree = inner if group['where'] == 'top' else {'s': D(inner), 'other': F(1)}
            core.materialise(root, tree)
            want = sorted('./' + p for p, n, l in core.walk_tree(tree))
            for tail in ('', ' order by path'):
                sub = ['archive', tail]
                if only is not None and sub != only:
                    continue
                q = 'path from . archives' + group['mode'] + tail + ' into list'
                o = env.run([q], cwd=root)
                rows = [r_ for r_ in o.rows() if not r_.startswith('[')]
                members = [r_ for r_ in o.rows() if r_.startswith('[')]
                ok = not o.timeout and not o.panicked and o.rc in (0, 1) and sorted(rows) == want and len(set(members)) == len(members) <= 3 and \
                    {'[./%sbad.zip] m1' % ('' if group['where'] == 'top' else 's/'), '[./%sbad.zip] m3' % ('' if group['where'] == 'top' else 's/')} <= set(members)
                emit(sub, ok, 'archive-member-unreadable', dict(o.brief(), query=q, missing=[x for x in want if x not in rows]))
            sub = ['archive', 'count']
            if only is None or sub == only:
                q = 'count(*) from . archives' + group['mode'] + ' into list'
                o = env.run([q], cwd=root)
                n_ = int(o.rows()[0]) if o.rows() and o.rows()[0].isdigit() else -1
                emit(sub, not o.panicked and o.rc in (0, 1) and len(want) + 2 <= n_ <= len(want) + 3, 'archive-member-unreadable',
                     dict(o.brief(), query=q, expected='%d or %d' % (len(want) + 2, len(want) + 3)))
        elif kind == 'pipe-big':
            fmt, path = group['fmt'], group['path']
            for al in group['aligns']:
                tree = {'f%03d' % i: F(i % 9) for i in range(260)}
                tree['0' + 'y' * al] = F(3)       # sorts first: shifts every later row against the buffer boundaries
                d = env.newdir('pb')
                try:
                    core.materialise(d, tree)
                    q = ('name, size, mode from .' + (' order by name' if path == 'ordered' else '')) + ' into ' + fmt
                    full = env.run([q], cwd=d, preload=True, env={'FSX_READDIR': 'sorted'})
                    Lb = len(full.out)
                    for k in sorted({0, 1, 1023, 1024, 1025, 4095, 4096, 8191, 8192, 8193, 2 * 8192 - 1, 2 * 8192, Lb - 1, Lb}):
                        if k > Lb:
                            continue
                        sub = [al, k]
                        if only is not None and sub != only:
                            continue
                        o = env.run([q], cwd=d, preload=True, env={'FSX_READDIR': 'sorted', 'FSX_STDOUT_BUDGET': str(k)})
                        ok = not o.timeout and not o.panicked and o.rc in (0, 1) and full.out.startswith(o.out) and len(o.out) <= k
                        emit(sub, ok, 'stdout-closed-big:%s:%s' % (fmt, path), dict(o.brief(), query=q, offset=k, full_len=Lb, align=al), nt=k < Lb,
                             sig=(fmt, path, o.rc))
                finally:
                    env.rmtree(d)
        elif kind == 'pipe-stop':
            # once nobody reads the output the search stops: directories it would have entered later are not even tried
            tree = {'f%02d' % i: F(i % 5) for i in range(30)}
            for i in range(12):
                tree['z%02d' % i] = D({'inside': F(1)})
            tree['ok'] = D({'deep': D({'x': F(1)})})
            core.materialise(root, tree)
            for i in range(12):
                os.chmod(os.path.join(root, 'z%02d' % i), 0)
            try:
                for frm in ('.', '. dfs', '. bfs'):
                    for budget in list(range(0, 520, 13)):
                        for fmt in ('lines', 'json', 'csv'):
                            sub = ['pipe-stop', frm, budget, fmt]
                            if only is not None and sub != only:
                                continue
                            q = 'name, size from %s into %s' % (frm, fmt)
                            o = env.run([q], cwd=root, preload=True, user=NOBODY, env={'FSX_READDIR': 'sorted', 'FSX_STDOUT_BUDGET': str(budget)})
                            named = [i for i in range(12) if ('z%02d' % i).encode() in o.err]
                            # (dfs may meet a closed directory before the first row is written: entries sort f.. ok z..)
                            # (json has no line ends: the program learns that the output is gone when its buffer of 1 KiB is flushed, a few directories later)
                            # the closed directories come after `ok` and its `deep` in both orders: if the output ended before the row of `deep`,
                            # the write that failed came before any of them was due
                            cut_before = b'deep' not in o.out
                            ok = not o.timeout and not o.panicked and o.rc in (0, 1) and len(o.out) <= budget
                            if cut_before and fmt != 'json':
                                ok = ok and not named
                            elif cut_before:
                                ok = ok and len(named) < 12
                            emit(sub, ok, 'search-goes-on-after-output-closed', dict(o.brief(), query=q, budget=budget, directories_tried_afterwards=len(named)))
            finally:
                for i in range(12):
                    os.chmod(os.path.join(root, 'z%02d' % i), 0o755)
        elif kind == 'pipe':
            fmt, path, n, al = group['fmt'], group['path'], group['n'], group['align']
            tree = {'f%03d' % i: F(i % 9) for i in range(n)}
            if n:
                tree['z' + 'y' * al] = F(3)
            core.materialise(root, tree)
            if path == 'stream':
                q = 'name, size from .'
            elif path == 'ordered':
                q = 'name, size from . order by name'
            elif path == 'aggregate':
                q = 'count(*), sum(size) from .'
            else:
                q = 'size, count(*) from . group by size order by size'
            q += ' into ' + fmt
            full = env.run([q], cwd=root, preload=True, env={'FSX_READDIR': 'sorted'})
            if full.rc != 0 or full.err:
                raise core.MachineryError('pipe reference run failed %r' % full.brief())
            Lb = len(full.out)
            offsets = range(0, Lb + 2)
            if group.get('sparse'):
                # every offset near the start, the end and each 1 KiB buffer boundary, every 41st elsewhere
                offsets = sorted({k for k in range(0, Lb + 2) if k <= 24 or k >= Lb - 24 or (k % 1024) <= 2 or (k % 1024) >= 1021 or k % 41 == 0})
            for k in offsets:
                sub = [k]
                if only is not None and sub != only:
                    continue
                o = env.run([q], cwd=root, preload=True, env={'FSX_READDIR': 'sorted', 'FSX_STDOUT_BUDGET': str(k)})
                ok = not o.timeout and not o.panicked and o.rc in (0, 1) and full.out.startswith(o.out) and len(o.out) <= k
                if k >= Lb:
                    ok = ok and o.out == full.out and o.rc == 0
                if ok:
                    continue_ok = True
                emit(sub, ok, 'stdout-closed:%s:%s' % (fmt, path), dict(o.brief(), query=q, offset=k, full_len=Lb, align=al), nt=k < Lb,
                     sig=(fmt, path, o.rc, len(o.out) == min(k, Lb)))
    finally:
        env.rmtree(root)
    # fold the many passing pipe offsets into one aggregate outcome per group
    if kind in ('pipe', 'pipe-big'):
        oks = [o for o in outs if o['status'] == 'ok']
        bad = [o for o in outs if o['status'] != 'ok']
        if oks:
            bad.append({'agg': {'cases': len(oks), 'nt': sum(1 for o in oks if o['nt']), 'sigs': list({o['sig'] for o in oks}), 'trans': len(oks),
                                'layer': 'pipe', 'samples': [{'case': oks[len(oks) // 2]['case']}]}})
        return bad
    return outs
