"""C10 Any command line terminates with status 0, 1 or 2 - never a crash or a hang.

(a) token-sequence tree explored breadth-first (states = sequences, transitions = append
    edges) through the in-crate batch hook, inside a chroot jail so that `/` is a small tree;
(b) every single-token mutation of a corpus of valid queries + labelled malformations;
(c) every scalar function x argument-kind vectors;
(d) the argv layer of `main` through the fresh CLI.
Everything the batch path flags is re-executed on the fresh CLI; a stratum of passing cases is
replayed on the fresh CLI and must agree byte for byte.
"""
import itertools
import os
import re

from fsx import core
from fsx import corpus
from fsx.core import D, F

ID = 'C10'
LEVEL = 'model_checking'
USES_BATCH = True
RULE = ('(a) every token sequence of length 1..3 (thorough: 4) over a 44-token alphabet of keywords, operators incl. an unknown '
        'one, brackets, quotes incl. unterminated, numbers, columns, functions, globs, paths, a date, options, and of length 4 '
        '(thorough: 5) over a 16-token core - each as separate argv words and joined into one word; (b) all single-token '
        'deletions, duplications, transpositions and truncations of ~200 valid queries + malformations labelled by construction '
        '(unbalanced bracket, dangling/unknown operator, ORDER BY position out of range or misplaced, non-numeric LIMIT, '
        'unknown format, no column, uninterpretable regex/date/boolean/function argument, also after the same text was used '
        'by another operator; multi-byte literals in all three quoting styles; NaN/inf sort keys with LIMIT); (c) every scalar function x argument-kind vectors of arity 0..3; (d) argv flags of main. '
        'non-trivial = the run did not end with status 0'
        '; (e) standard streams that cannot be written (/dev/full, pipe without reader) x 12 argument vectors; 22 TZ strings x 6 date queries; a 1200-deep chain of directories; chains inside brackets inside chains (3, 6, 20 levels x 998 terms); ignore files that include themselves; bad literals on the side of AND/OR that no entry evaluates')
MC_NOTE = ('states = token sequences explored breadth-first by length, transitions = append-token edges; every state is '
           'executed on the real parser/searcher (batch hook = the crate\'s own exec_search) and every flagged state plus a '
           'deterministic stratum is re-validated on the fresh CLI binary')
ASSUMPTIONS = ['the subject runs in a chroot jail whose / is a small generated tree, so no token sequence can start a walk of '
               'the real file system', 'horizon 10 s per run (a run of this size takes milliseconds)',
               'batch transport bypasses main()\'s flag handling; that layer is explored through the fresh CLI (d)',
               'dev profile: arithmetic overflow panics instead of wrapping']
BUDGET = {'quick': 55, 'thorough': 3000}

ALPHA = ['select', 'from', 'where', 'and', 'or', 'not', 'order', 'by', 'group', 'limit', 'into', 'desc', 'between', 'like',
         '=', '!=', '>', '=~', '=!', '(', ')', '{', '}', "'x y'", "'", '0', '1', '99', 'name', 'size', 'is_dir', 'lower',
         'count', 'substr', '*.txt', '.', '/', '*', ',', '-', '2020-01-01', 'mindepth', 'json', 'xyz']
CORE16 = ['name', 'size', 'from', 'where', '=', '>', '(', ')', 'and', 'not', 'order', 'by', 'limit', '1', 'desc', ',']


def bounds(tier):
    return {'alphabet': len(ALPHA), 'max_len': 3 if tier == 'quick' else 4, 'core5': tier == 'thorough',
            'corpus': len(corpus.queries())}


KS = {'k9': '9', 'k1a': '1a', 'k10': '10', 'k2': '2', 'kx': 'x', 'k01': '01', 'kneg': '-5', 'k1e1': '1e1'}


def jail_tree():
    t = corpus.corpus_tree()
    # one file per directory: the order of the roots is the arrival order of the rows
    t['ks'] = D({d: D({n: F(len(n))}) for d, n in KS.items()})
    # ignore files that include themselves / each other (twice each: a reader that merely survives one failing level never ends)
    t['hgself'] = D({'.hg': D({}), '.hgignore': F(data='syntax: glob\n*.o\nsubinclude:/work/hgself/.hgignore\nsubinclude:/work/hgself/.hgignore\n'), 'a.o': F(1), 'b.c': F(2)})
    t['hgpair'] = D({'.hg': D({}), '.hgignore': F(data='subinclude:/work/hgpair/other\nsubinclude:other\n\\.o$\n'),
                     'other': F(data='subinclude:/work/hgpair/.hgignore\nsubinclude:.hgignore\n'), 'a.o': F(1)})
    # an include that names a pipe or a device (reading never ends), a chain of includes thousands of files long
    x = {}
    x['hgpipe'] = D({'.hg': D({}), '.hgignore': F(data='syntax: glob\n*.o\nsubinclude:/hgx/hgpipe/fifo\n'), 'fifo': {'t': 'p'}, 'a.o': F(1), 'b.c': F(1)})
    x['hgzero'] = D({'.hg': D({}), '.hgignore': F(data='subinclude:/dev/zero\n\\.o$\n'), 'a.o': F(1)})
    chain = {'.hg': D({}), '.hgignore': F(data='subinclude:/hgx/hgchain/i0000\n'), 'a.o': F(1)}
    for i in range(3000):
        chain['i%04d' % i] = F(data=('subinclude:/hgx/hgchain/i%04d\n' % (i + 1)) if i < 2999 else '\\.o$\n')
    x['hgchain'] = D(chain)
    # an include that names a directory (it can be opened, every read fails)
    t['hgdir'] = D({'.hg': D({}), '.hgignore': F(data='syntax: glob\n*.o\nsubinclude:/work/hgdir/sub\n*.c\n'), 'sub': D({'x.o': F(1)}), 'a.o': F(1), 'b.c': F(2), 'k': F(3)})
    return {'work': D(t), 'hgx': D(x)}


# ------------------------------------------------------------------ labelled malformations

def labelled():
    """(argv, label, expectation) - expectation 'reject' = status 2, stderr non-empty, stdout empty;
    'diag' = status 2 with a diagnostic (rows may have been printed before the literal was met)."""
    base = 'name from . where '
    out = []
    for qy in ('name from . where (size > 1', 'name from . where size > 1)', 'name from . where ((size > 1)', 'name ((',
               'name from . where {size > 1', 'name from . where (size > 1}', 'name, lower(name from .', 'lower(name)) from .',
               'name from . where not (size > 1 and (name = a)', 'name from . where size > 1 )', 'name )', 'name (', '( name',
               'name from . where lower(name = a', 'name, lower( from .', 'name, lower(', "name from . where lower(( = 'a'", 'name, upper{ from .',
               'name, length(name from .'):
        out.append(([qy], 'unbalanced-bracket', 'reject'))
    for qy in ('name from . where size >', 'name from . where size > 1 and', 'name from . where size > 1 or',
               'name from . where', 'name from . where size between 1', 'name from . where size between 1 and', 'name from . where not',
               'name from . where > 1', 'name from . where size > 1 and and name = a', 'name from . where size + > 1',
               'name from . where = 1', 'name from . where is_file not', 'name from . where size not', 'name from . where size > 1 and name not'):
        out.append(([qy], 'dangling-operator', 'reject'))
    for op in ('=!', '=<', '=>', '!', '><', '~~', '=!='):
        out.append((['name from . where size %s 1' % op], 'unknown-operator', 'reject'))
    for qy in ('name from . order by 0', 'name from . order by 2', 'name, size from . order by 3', 'name from . order by 99',
               'name from . order by desc', 'name from . order by desc, name', 'name from . order by name, 2',
               'name, size from . order by 1, 3 desc', 'name from . order by 00',
               'name from . order by 18446744073709551616', 'name from . order by 99999999999999999999999', 'name from . order by 4294967297'):
        out.append(([qy], 'order-by-position', 'reject'))
    for qy in ('name from . limit x', 'name from . limit', 'name from . limit -1', 'name from . limit 1.5', 'name from . limit 1 2',
               "name from . limit ''", 'name from . limit 99999999999'):
        out.append(([qy], 'non-numeric-limit', 'reject'))
    for qy in ('name from . into xml', 'name from . into', 'name from . into json json', 'name from . into 1'):
        out.append(([qy], 'unknown-format', 'reject'))
    for qy in ('from .', 'where size > 1', 'select from .', 'select', 'order by name', 'limit 1', 'into json', ',', 'select ,'):
        out.append(([qy], 'no-column', 'reject'))
    for qy in ("name from . where name =~ '(('", "name from . where name =~ '*'", "name from . where name !=~ '['",
               "name from . where name =~ 'a{2,1}'", "name from . where name like '((' or name =~ '(('",
               "name from . where name = '*(' or name =~ '*('", "name from . where name like 'x(' or name !=~ 'x('",
               "name from . where name = 'a[' or name like 'a[' or name =~ 'a['", "name from . where not name like '%(' and name =~ '%('"):
        out.append(([qy], 'bad-regex', 'diag'))
    # a path segment is a pattern when it contains * [ or ? (the documented trigger of the regexp root option)
    for qy in ("name from 'a[' regexp", "name from 'x/b[' rx", "name from ., '*{' regexp", "name from 'a[/b' regexp where size > 1",
               "count(*) from 'a[' rx", "name from '?(' regexp order by 1 limit 1", "name from 'a[' depth 1 rx"):
        out.append(([qy], 'bad-regex', 'diag'))
    # a bad literal on the side of AND / OR that the evaluation skips for every entry is a bad literal all the same
    never, always = 'size > 99999999999', 'size >= 0'
    for bad, label in (("name rx '('", 'bad-regex'), ("name notrx '[a'", 'bad-regex'), ("modified = 'garbage'", 'bad-date'), ("accessed > '2021-13-45'", 'bad-date'),
                       ('is_dir = maybe', 'bad-boolean'), ('2 = is_file', 'bad-boolean'), ("'garbage' < modified", 'bad-date')):
        for qy in ('name from . where %s and %s' % (never, bad), 'name from . where %s or %s' % (always, bad), 'name from . where (%s and (%s or %s)) or %s' % (never, always, bad, always),
                   'name from . where not (%s or %s)' % (always, bad), 'name from /work/ks/nonexistent where %s' % bad, 'name from . where %s and %s limit 1' % (bad, never)):
            out.append(([qy], label, 'diag'))
    # ... also when the same text was a pattern of LIKE (always valid there) earlier in the clause
    for txt in ('*.bak', '%(1%', '((', '[a'):
        for qy in ("name from . where %s and name like '%s' and name rx '%s'" % (never, txt, txt), "name from . where %s or name notlike '%s' or name rx '%s'" % (always, txt, txt),
                   "name from . where name like '%s' and %s and name notrx '%s'" % (txt, never, txt), "name from . where (name like '%s' or %s) or name =~ '%s'" % (txt, always, txt),
                   "name from . where name = '%s' and name like '%s' and %s and name rx '%s'" % (txt, txt, never, txt)):
            out.append(([qy], 'bad-regex', 'diag'))
    for qy in ('name from . where modified > garbage', "name from . where modified = '2021-13-45'", "name from . where modified = '2021-01-01 25:00'",
               "name from . where modified = '2021-02-30'", "name from . where modified > '2021-01-01 10:61'",
               "name from . where modified < '2021-01-01 10:10:99'", 'name from . where modified = x', "name from . where modified = '+x'",
               "name from . where modified = '-'", "name from . where modified = '0000-00-00'",
               "name from . where modified = '٢٠٢٣-١٢-١١'", "name from . where modified = '25:00'", "name from . where modified > '12:99'",
               "name from . where modified > '2147483648 years ago'", "name from . where modified < '3000000000 years ago'",
               "name from . where modified = '999999999 weeks'", "name from . where modified = 12345"):
        out.append(([qy], 'bad-date', 'diag'))
    for qy in ('name from . where is_dir = maybe', 'name from . where is_file = 2', "name from . where is_dir != 'x y'",
               'name from . where suid = tru'):
        out.append(([qy], 'bad-boolean', 'diag'))
    for qy in ('name, rand(a) from .', 'name, rand(1, b) from .', 'name, rand(5, 1) from .', 'name, rand(0) from .',
               "name, format_size(size, 'q') from .", "name, format_size(size, '%.99999999999') from ."):
        out.append(([qy], 'bad-function-argument', 'diag'))
    # unusual but legal input: must not crash (no status expectation)
    for qq in ("'", '"', '`'):
        for txt in ('café.txt', '中文', 'a é b', 'é', 'naïve', '🙂x', 'x\\'):
            lit = qq + txt + qq
            for qy in ('name from . where name = %s' % lit, 'name, %s from .' % lit, 'name from . where name like %s' % lit,
                       'name, length(%s) from .' % lit, 'name from %s' % lit, 'name from . where name =~ %s order by 1' % lit):
                out.append(([qy], 'exotic-literal', None))
    for key in ('ln(size - 100)', 'sqrt(0 - size)', 'size / 0', 'size % 0', '0 / 0', 'log(0 - 1)', 'ln(0)', 'exp(1000)', 'power(0 - 8, 0.5)', '0 - exp(1000)'):
        for tail in ('', ' desc'):
            for lim in ('', ' limit 1', ' limit 2', ' limit 3', ' limit 100'):
                out.append((['name, %s from . order by 2%s%s' % (key, tail, lim)], 'nan-sort-key', None))
                out.append((['name from . order by %s%s, name%s' % (key, tail, lim)], 'nan-sort-key', None))
    # arithmetic between totals, the divisor total being 0 (no entry has a value, or the values add up to nothing)
    for a in ('sum(size)', 'count(*)', 'max(size)', 'avg(size)', 'sum(size - size)', 'sum(line_count)'):
        for b_ in ('sum(width)', 'sum(line_count)', 'count(width)', 'sum(size - size)', 'sum(0)', 'min(size - size)', 'count(*) - count(*)', 'sum(hardlinks) - sum(hardlinks)'):
            for opx in ('/', '%', 'div', 'mod'):
                for tail in (' from .', ' from . where is_dir = true', ' from . group by is_dir', ' from . where size gt 99999999999', ' from . group by ext order by 1'):
                    out.append((['%s %s %s%s' % (a, opx, b_, tail)], 'zero-total-divisor', None))
    # very long and very deep input: an answer (of any kind) in time, no crash
    N = 20000
    for qy in ('name from . where ' + '(' * N + 'size > 1' + ')' * N, 'name from . where ' + '(' * N + 'size > 1', 'name from . where ' + '{' * N + 'size > 1' + '}' * N,
               'name, ' + 'lower(' * 5000 + 'name' + ')' * 5000 + ' from .', 'name from . order by name ' + 'asc ' * 30000, 'name ' + ', name' * 20000 + ' from . limit 1',
               "name from . where name = '" + 'x' * 120000 + "'", 'name from . where name = ' + 'y' * 100000, 'name from . where ' + 'not ' * 30000 + 'size > 1',
               'name, ' + '1 + ' * 20000 + '1 from . limit 1', 'name from . where size > 1 ' + 'and size > 1 ' * 10000):
        out.append(([qy], 'long-input', None))
    # long unquoted words with multi-byte characters around the operator characters inside them (the word rules look ahead a fixed number of characters)
    for head in ('2018', 'size', 'x'):
        for opc in '-*+/%':
            for fill in ('отчёт', '日本語', 'né', '🙂a'):
                for pad in range(0, 4):
                    for n in (8, 12, 20):
                        word = head + opc + 'a' * pad + (fill + opc) * n + 'версия.docx'
                        out.append((['name from . where name = ' + word], 'long-input', None))
                        if pad == 0:
                            out.append((['name, ' + word + ' from . limit 1'], 'long-input', None))
                            out.append((['name from . order by ' + word + ' limit 1'], 'long-input', None))
    # chains inside brackets inside chains: every limit on its own is kept, the tree is as deep as their product
    def nest(term, op, levels, n):
        text = term
        for _ in range(levels):
            text = term + (' %s %s' % (op, term)) * 3 + ' %s ( %s )' % (op, text) + (' %s %s' % (op, term)) * (n - 4)
        return text
    for levels in (3, 6, 20):
        for qy in ('name from . where ' + nest('size = 7', 'or', levels, 998), 'name from . where ' + nest('size > 1', 'and', levels, 998),
                   'name, ' + nest('1', '+', levels, 998) + ' from . limit 1', 'name, ' + nest('2', '*', levels, 998) + ' from . limit 1',
                   'name from . where size > ' + nest('1', '+', levels, 998), 'name from . order by ' + nest('size', '+', levels, 998) + ' limit 1'):
            out.append(([qy], 'long-input', None))
    for qy in ('name from /work/hgself hgignore', 'name from /work/hgpair hgignore', 'name from /work/hgself hgignore, /work/hgpair hgignore', 'count(*) from /work hgignore',
               'name from /work/hgdir hgignore', 'name from /work/hgdir/sub hgignore', 'name from /hgx/hgpipe hgignore', 'name from /hgx/hgzero hgignore',
               'name from /hgx/hgchain hgignore where name = a.o'):
        out.append(([qy], 'ignore-file-cycle', None))
    # a value that doubles with every level of nesting: an answer (a refusal) in time, not a process that dies of it
    grow = "'x'"
    for _ in range(9):
        grow = "replace(%s, '', '%s')" % (grow, 'y' * 60)
    out.append((['name, length(%s) from . limit 1' % grow], 'value-growth', None))
    grow = 'name'
    for _ in range(8):
        grow = "replace(%s, 'a', '%s')" % (grow, 'a' * 90)
    out.append((['name, length(%s) from . limit 3' % grow], 'value-growth', None))
    # numbers at the edge of the machine types inside expressions and aggregates
    for qy in ('sum(size * 0 + 10000000000000000000) from .', 'avg(size * 0 + 10000000000000000000), var_pop(size * 0 + 1e308) from .',
               '-rand(-9223372036854775808, -9223372036854775807) from . limit 1', 'name, -(0 - 9223372036854775808) from . limit 1',
               ):
        out.append(([qy], 'edge-number', None))
    # sort keys that are numbers for some rows and text for others, in every arrival order, with every small LIMIT
    for n in (3, 4):
        for perm in itertools.permutations(sorted(KS), n):
            frm = ', '.join('ks/' + d for d in perm)
            for lim in range(1, n):
                for tail in ('', ' desc'):
                    out.append((['name from %s order by name%s limit %d' % (frm, tail, lim)], 'mixed-sort-key', None))
    return out


# ------------------------------------------------------------------ function x argument kinds

FUNCS = ['lower', 'upper', 'initcap', 'length', 'to_base64', 'from_base64', 'bin', 'hex', 'oct', 'abs', 'power', 'sqrt', 'log',
         'ln', 'exp', 'least', 'greatest', 'concat', 'concat_ws', 'substr', 'replace', 'trim', 'ltrim', 'rtrim', 'coalesce',
         'format_size', 'format_time', 'curdate', 'day', 'month', 'year', 'dow', 'current_uid', 'current_user', 'contains',
         'has_xattr', 'xattr', 'has_caps', 'has_cap', 'rand', 'min', 'max', 'avg', 'sum', 'count', 'stddev', 'var_samp',
         'contains_japanese', 'kana']
EDGE_INTS = ['-2147483648', '-2147483649', '2147483647', '2147483648', '4294967295', '4294967296', '-9223372036854775808',
             '9223372036854775807', '9223372036854775808', '18446744073709551615', '-1', '0']
ARGK = ['', 'word', '5', '-3', '0.5', '99999999999999999999', '2021-03-04', 'name', 'size', 'modified', 'is_dir', "'a b'", '*']


def func_cases(tier):
    for f in FUNCS:
        yield ['name, %s from .' % f]
        yield ['name, %s() from .' % f]
        for a in ARGK[1:]:
            yield ['name, %s(%s) from .' % (f, a)]
        ks = ARGK[1:] if tier == 'thorough' else ['word', '5', '-3', 'name', 'size', "'a b'"]
        for a, b in itertools.product(ks, repeat=2):
            yield ['name, %s(%s, %s) from .' % (f, a, b)]
        ks3 = ['word', '5', '-3', 'name'] if tier == 'quick' else ['word', '5', '-3', '0.5', 'name', 'size']
        if f in ('substr', 'replace', 'concat', 'concat_ws', 'coalesce', 'least', 'greatest', 'rand', 'power', 'format_size'):
            for a, b, c in itertools.product(ks3, repeat=3):
                yield ['name, %s(%s, %s, %s) from .' % (f, a, b, c)]
        # integers at the edges of the machine types, alone and behind a text argument
        for n in EDGE_INTS:
            yield ['name, %s(%s) from .' % (f, n)]
            yield ['name, %s(name, %s) from .' % (f, n)]
            yield ["name, %s('abc', %s, %s) from ." % (f, n, n)]
            yield ["name, %s('abc', 2, %s) from ." % (f, n)]
        yield ['name from . where %s(name) = 1' % f]
        yield ['name from . where %s = 1' % f]


# ------------------------------------------------------------------ space

def mutations(q):
    n = len(q)
    for i in range(n):
        yield q[:i] + q[i + 1:], 'delete'
        yield q[:i + 1] + q[i:], 'duplicate'
        if i + 1 < n:
            yield q[:i] + [q[i + 1], q[i]] + q[i + 2:], 'transpose'
        if 0 < i:
            yield q[:i], 'truncate'


def groups(tier, seed):
    # (a) token sequences, grouped by the first two tokens
    L = 3 if tier == 'quick' else 4
    yield {'kind': 'seq', 'prefix': [], 'depth': 1}
    for a in ALPHA:
        yield {'kind': 'seq', 'prefix': [a], 'depth': 2}
    for a in ALPHA:
        for b in ALPHA:
            yield {'kind': 'seq', 'prefix': [a, b], 'depth': L}
    for a in CORE16:
        for b in CORE16:
            yield {'kind': 'seq5', 'prefix': [a, b], 'n': 2 if tier == 'quick' else 3}
    # (b) mutations
    qs = corpus.queries()
    for i in range(0, len(qs), 4):
        yield {'kind': 'mut', 'idx': list(range(i, min(i + 4, len(qs))))}
    lab = labelled()
    for i in range(0, len(lab), 20):
        yield {'kind': 'lab', 'range': [i, min(i + 20, len(lab))]}
    # (c) functions
    fc = list(func_cases(tier))
    for i in range(0, len(fc), 200):
        yield {'kind': 'func', 'range': [i, min(i + 200, len(fc))]}
    # (d) argv layer
    yield {'kind': 'argv'}
    # (e) a legal tree that is one long chain of directories (every path below PATH_MAX): an answer in time
    yield {'kind': 'deepchain'}


def single(case):
    return {'kind': 'one', 'argv': case['argv'], 'label': case.get('label'), 'expect': case.get('expect'), 'cli': True,
            'stdin': case.get('stdin'), 'streams': case.get('streams'), 'tz': case.get('tz')}


# ------------------------------------------------------------------ evaluation

def get_jail(env):
    j = getattr(env, '_c10', None)
    if j is None:
        troot = env.newdir('jail')
        core.materialise(troot, jail_tree())
        core.make_jail(env, troot)
        batch = core.Batch(env, '/work', jail=troot) if env.hooks else None
        j = env._c10 = {'root': troot, 'batch': batch}
        env._batch = batch
    return j


STREAM_ARGVS = [['--help'], ['--version'], [], ['-i'], ['--nocolor'], ['name from /work'], ['name from /work into json'], ['count(*) from /work'], ['name from /work order by 7'],
                ['name from /nonexistent'], ['name from /work where name rx ('], ['name, size from /work order by size limit 2 into csv']]
ZONES = ['XXX-24', 'XXX+24', '<-24>24', 'XXX-24:59:59', 'XXX+24:59:59', 'AAA+23BBB-24,M3.2.0,M11.1.0', 'XXX-23:59:59', 'XXX+0', '', ':', 'nonsense', 'XXX-25', 'XXX+99', ':/nonexistent',
         'UTC0', 'A-1', '<+1245>-12:45<+1345>,M9.5.0/2:45,M4.1.0/3:45', 'XXX-14', 'XXX+12', 'EST5EDT,0,365', 'EST5EDT,J1,J365/25', 'x' * 300]
CHAIN_DEPTH = 1200
STREAM_STATES = [{'stdout': 'full'}, {'stdout': 'epipe'}, {'stderr': 'full'}, {'stderr': 'epipe'}, {'stdout': 'epipe', 'stderr': 'epipe'}, {'stdout': 'full', 'stderr': 'full'}]


def run(env, j, argv, cli=False):
    if j['batch'] is not None and not cli:
        return j['batch'].run(argv, timeout=10.0)
    return core.run_jailed(env, j['root'], argv, timeout=10.0, cwd='/work')


PANIC_RE = re.compile(rb'panicked at ([^\n]*?):(\d+):\d+:\n([^\n]*)')


def judge(o, label=None, expect=None):
    """-> (class or None, detail)"""
    if o.timeout:
        return 'hang', o.brief()
    if o.panicked or b'panicked at' in o.err:
        m = PANIC_RE.search(o.err)
        where = '%s:%s' % (os.path.basename(m.group(1).decode()), m.group(2).decode()) if m else '?'
        msg = re.sub(r'\d+', 'N', m.group(3).decode('utf-8', 'replace'))[:60] if m else ''
        return 'panic:%s:%s' % (where, msg), o.brief()
    if o.rc < 0 or o.rc not in (0, 1, 2):
        return 'bad-status:%s' % o.rc, o.brief()
    if o.rc == 2 and not o.err.strip():
        return 'status2-without-diagnostic', o.brief()
    if o.rc == 2 and o.err.startswith(b'query:') and o.out:
        return 'rows-printed-on-parse-rejection', o.brief()
    if expect == 'reject':
        if o.rc != 2:
            return 'accepted-malformed:%s' % label, o.brief()
        if o.out:
            return 'rows-printed-on-parse-rejection', o.brief()
    if expect == 'diag' and o.rc != 2:
        return 'no-diagnostic:%s' % label, o.brief()
    return None, None


def eval_group(env, group, tier):
    j = get_jail(env)
    kind = group['kind']
    outs = []
    agg = {'cases': 0, 'nt': 0, 'sigs': set(), 'trans': 0, 'layer': kind, 'samples': []}

    def one(argv, label=None, expect=None, cli=False, layer=None, stdin=None):
        o = run(env, j, argv, cli=cli)
        cls, detail = judge(o, label, expect)
        case = {'argv': argv, 'label': label, 'expect': expect}
        if cls:
            outs.append({'case': case, 'status': 'viol', 'cls': cls, 'detail': dict(detail, argv=argv), 'nt': True,
                         'sig': ('viol', cls), 'layer': layer or kind})
        else:
            agg['cases'] += 1
            agg['nt'] += 1 if o.rc != 0 else 0
            agg['sigs'].add((o.rc, o.err[:24]))
            if len(agg['samples']) < 2:
                agg['samples'].append({'case': case, 'rc': o.rc, 'err': o.err[:80].decode('utf-8', 'replace')})
        return o, cls

    def conform(argv, o):
        # stratum replayed on the fresh CLI must agree byte for byte
        o2 = core.run_jailed(env, j['root'], argv, timeout=10.0, cwd='/work')
        if (o2.rc, o2.out) != (o.rc, o.out):
            raise core.MachineryError('transport disagreement on %r: batch %r cli %r' % (argv, o.brief(), o2.brief()))

    if kind in ('seq', 'seq5'):
        pre = group['prefix']
        if kind == 'seq':
            d = group['depth']
            seqs = [pre + list(t) for t in itertools.product(ALPHA, repeat=d - len(pre))] if d > len(pre) else [pre]
            if not pre and d == 1:
                seqs = [[a] for a in ALPHA]
        else:
            seqs = [pre + list(t) for t in itertools.product(CORE16, repeat=group.get('n', 3))]
        for i, sq in enumerate(seqs):
            renderings = [sq, [' '.join(sq)]] if len(sq) <= 3 else [sq if (i % 2) else [' '.join(sq)]]
            for argv in renderings:
                o, cls = one(argv, layer='len=%d' % len(sq))
                agg['trans'] += 1
                if j['batch'] is not None and cls is None and (i * 7 + len(pre)) % 211 == 0:
                    conform(argv, o)
    elif kind == 'mut':
        qs = corpus.queries()
        for qi in group['idx']:
            q = qs[qi]
            o, cls = one([' '.join(q)], label='valid', layer='corpus')
            if cls is None and o.rc != 0:
                outs.append({'case': {'argv': [' '.join(q)], 'label': 'valid'}, 'status': 'viol', 'cls': 'corpus-query-rejected',
                             'detail': o.brief(), 'nt': True, 'sig': ('corpus',), 'layer': 'corpus'})
            seen = set()
            for m, op in mutations(q):
                k = ' '.join(m)
                if k in seen or not m:
                    continue
                seen.add(k)
                one([k], layer='mut-' + op)
                one(m, layer='mut-' + op)
    elif kind == 'lab':
        lab = labelled()
        for argv, label, expect in lab[group['range'][0]:group['range'][1]]:
            one(argv, label, expect, layer='lab-' + label)
            one(argv[0].split(' ') if not any(ch in argv[0] for ch in "'\"`") else argv, label, expect, layer='lab-' + label)
    elif kind == 'func':
        fc = list(func_cases(tier))
        for argv in fc[group['range'][0]:group['range'][1]]:
            one(argv, layer='func')
    elif kind == 'argv':
        firsts = ['-c', '--config', '/c', '/cfg', '-config', '-i', '/i', '--interactive', '-v', '--version', 'xversionx', '-h', '--help',
                  '/?', '/h', 'help', '--nocolor', '--no-color', '/nocolor', '-x', '--', '-', '/tmp', '/work', '-C', '-cname']
        rest = [[], ['name'], ['/nonexistent.toml'], ['/nonexistent.toml', 'name'], ['name', 'from', '.'], ['-c'], ['-i']]
        for f in firsts:
            for r in rest:
                one([f] + r, cli=True, layer='argv')
        one([''], cli=True, layer='argv')
        one(['', ''], cli=True, layer='argv')
        # arguments that are not valid UTF-8, alone and inside a query; option letters glued to other text
        for a in (['\udcff'], ['name', 'from', '.', 'where', 'name', '=', 'a\udcffb'], ["name from . where name = 'x\udcfe'"], ['\udcff\udcfe', 'name'],
                  ['--config', '/L/\udcff.toml', 'name'], ['-count(*)'], ['-inode from .'], ['-hardlinks', 'from', '.'], ['name from helpers'],
                  ["name from . where name = 'version'"], ['exif_version from . limit 1'], ['name from . where name like %nocolor%']):
            one(a, cli=True, layer='argv')
        # the working directory has been removed (absolute roots stay searchable, `.` is a failing root)
        for a in (['name from /work'], ['name from .'], ['name'], ['name from /work/sub, . limit 2'], ["name from 's.*' rx"], ['count(*) from /work']):
            o = core.run_jailed(env, j['root'], a, timeout=10.0, cwd='@gone')
            cls, detail = judge(o)
            case = {'argv': a, 'label': 'cwd-removed', 'expect': None}
            if cls:
                outs.append({'case': case, 'status': 'viol', 'cls': cls, 'detail': dict(detail, argv=a, cwd='removed'), 'nt': True, 'sig': ('viol', cls), 'layer': 'argv'})
            else:
                agg['cases'] += 1
                agg['nt'] += 1
        # a standard stream that cannot be written (fselect --help | head -1; > /dev/full; closed by the caller)
        for a in STREAM_ARGVS:
            for st in STREAM_STATES:
                o = core.run_jailed(env, j['root'], a, timeout=10.0, cwd='/work', streams=st)
                cls, detail = judge(o)
                if cls == 'status2-without-diagnostic' and 'stderr' in st:
                    cls = None
                case = {'argv': a, 'label': 'streams', 'streams': st, 'expect': None}
                if cls:
                    outs.append({'case': case, 'status': 'viol', 'cls': cls, 'detail': dict(detail, argv=a, streams=st), 'nt': True, 'sig': ('viol', cls), 'layer': 'argv-streams'})
                else:
                    agg['cases'] += 1
                    agg['nt'] += 1
        # time zones at the edge of what a TZ string may say (an offset of a whole day is legal POSIX)
        for tz in ZONES:
            for a in (['name, modified from /work limit 2'], ['name from /work where modified < today'], ["name from /work where modified > '2020-01-01' and accessed >= -3"],
                      ['curdate() from /work limit 1'], ['name from /work order by modified limit 1'], ['name from /work where modified = yesterday or created > 2020-05-05']):
                o = core.run_jailed(env, j['root'], a, timeout=10.0, cwd='/work', extra_env={'TZ': tz})
                cls, detail = judge(o)
                case = {'argv': a, 'label': 'zone', 'tz': tz, 'expect': None}
                if cls:
                    outs.append({'case': case, 'status': 'viol', 'cls': cls, 'detail': dict(detail, argv=a, tz=tz), 'nt': True, 'sig': ('viol', cls), 'layer': 'argv-zone'})
                else:
                    agg['cases'] += 1
                    agg['nt'] += 1
    elif kind == 'deepchain' or (kind == 'one' and group.get('label') == 'deep-chain'):
        import subprocess
        top = os.path.join(j['root'], 'chain%d' % os.getpid())
        here = os.getcwd()
        try:
            os.mkdir(top)
            os.chdir(top)
            for _ in range(CHAIN_DEPTH):
                os.mkdir('d')
                os.chdir('d')
            open('leaf', 'w').close()
            os.chdir(here)
            name = '/' + os.path.basename(top)
            argvs = [['count(*) from %s' % name], ['count(*) from %s dfs' % name], ['name from %s symlinks where name = leaf' % name],
                     ['name from %s depth 5' % name]]      # (with an ignore option every directory's real path is still resolved: cubic, recorded as a limit)
            for a in argvs:
                if kind == 'one' and [x.replace(name, '@') for x in a] != group['argv']:
                    continue
                o = core.run_jailed(env, j['root'], a, timeout=15.0, cwd='/')
                cls, detail = judge(o)
                if not cls and a[0].startswith('count') and o.out.strip() != str(CHAIN_DEPTH + 1).encode():
                    cls, detail = 'deep-chain-count', o.brief()
                case = {'argv': [x.replace(name, '@') for x in a], 'label': 'deep-chain', 'expect': None}
                if cls:
                    outs.append({'case': case, 'status': 'viol', 'cls': cls, 'detail': dict(detail, argv=case['argv'], depth=CHAIN_DEPTH), 'nt': True, 'sig': ('viol', cls),
                                 'layer': 'deep-chain'})
                else:
                    agg['cases'] += 1
                    agg['nt'] += 1
        finally:
            os.chdir(here)
            subprocess.run(['rm', '-rf', top])
    elif kind == 'one' and group.get('label') == 'zone':
        o = core.run_jailed(env, j['root'], group['argv'], timeout=10.0, cwd='/work', extra_env={'TZ': group['tz']})
        cls, detail = judge(o)
        if cls:
            outs.append({'case': {'argv': group['argv'], 'label': 'zone', 'tz': group['tz'], 'expect': None}, 'status': 'viol', 'cls': cls,
                         'detail': dict(detail, argv=group['argv'], tz=group['tz']), 'nt': True, 'sig': ('viol', cls), 'layer': 'argv-zone'})
    elif kind == 'one' and group.get('label') == 'streams':
        o = core.run_jailed(env, j['root'], group['argv'], timeout=10.0, cwd='/work', streams=group['streams'])
        cls, detail = judge(o)
        if cls == 'status2-without-diagnostic' and 'stderr' in group['streams']:
            cls = None
        if cls:
            outs.append({'case': {'argv': group['argv'], 'label': 'streams', 'streams': group['streams'], 'expect': None}, 'status': 'viol', 'cls': cls,
                         'detail': dict(detail, argv=group['argv'], streams=group['streams']), 'nt': True, 'sig': ('viol', cls), 'layer': 'argv-streams'})
    elif kind == 'one' and group.get('label') == 'cwd-removed':
        o = core.run_jailed(env, j['root'], group['argv'], timeout=10.0, cwd='@gone')
        cls, detail = judge(o)
        if cls:
            outs.append({'case': {'argv': group['argv'], 'label': 'cwd-removed', 'expect': None}, 'status': 'viol', 'cls': cls,
                         'detail': dict(detail, argv=group['argv'], cwd='removed'), 'nt': True, 'sig': ('viol', cls), 'layer': 'argv'})
    elif kind == 'one':
        one(group['argv'], group.get('label'), group.get('expect'), cli=True)
    if agg['cases']:
        agg['sigs'] = list(agg['sigs'])[:50]
        outs.append({'agg': agg})
    return outs
