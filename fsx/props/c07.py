"""C07 Aggregate functions return the mathematical aggregate of the matching entries."""
import itertools
import math
import os
from fractions import Fraction

from fsx import core
from fsx.core import D, F

ID = 'C07'
LEVEL = 'exploration'
RULE = ('every non-empty subset of the nine aggregate functions (511, canonical order) + all 72 ordered pairs + aliases, '
        'x argument in {size, hardlinks, uid, line_count, length(name)} x WHERE in {none, all, some, none-matching} x '
        'trees with 0,1,2,3 and 12 matching entries (fractional means, equal values, sums beyond 2^32, values near 3e9 that differ by single units); arithmetic over aggregates; non-trivial = '
        'at least two matching entries with a non-constant argument')
ASSUMPTIONS = ['values are compared numerically: integers exactly, AVG/VAR/STDDEV within 1e-9 relative',
               'empty input: only COUNT = 0 and "exactly one row" are asserted',
               'line_count is aggregated only under a files-only filter (directories have no line count)']
BUDGET = {'quick': 50, 'thorough': 1200}

FUNCS = ['count', 'sum', 'min', 'max', 'avg', 'var_pop', 'var_samp', 'stddev_pop', 'stddev_samp']
ALIASES = {'stddev_pop': ['stddev', 'std'], 'var_pop': ['variance']}


def bounds(tier):
    return {'subset_sizes': 'all 511' if tier == 'thorough' else '<=2 and the full set', 'trees': len(TREES),
            'args': ARGS, 'wheres': [w[0] for w in WHERES]}


def lines(n):
    return 'l\n' * n


TREES = {
    'empty': {},
    'one': {'a.txt': F(data=lines(3))},
    'two': {'a.txt': F(1), 'bb': F(2)},
    'three': {'a.txt': F(1), 'bb.txt': F(2), 'ccc': F(4)},
    'mixed': {'a.txt': F(data=lines(1)), 'b.txt': F(data='x\ny\nz'), 'sub': D({'c.txt': F(7), 'dd.rs': F(7), 'e': F(0)}),
              'h1': F(5), 'h2': {'t': 'f', 'link': 'h1'}, 'h3': {'t': 'f', 'link': 'h1'}, 'own': F(9, uid=1000, gid=100)},
    'close': {'c0': F(3 * 10 ** 9, sparse=True), 'c1': F(3 * 10 ** 9 + 1, sparse=True), 'c2': F(3 * 10 ** 9 + 2, sparse=True),
              'c3': F(3 * 10 ** 9 + 5, sparse=True), 'tiny.txt': F(1)},
    'big': {'big1': F(2 ** 31, sparse=True), 'big2': F(2 ** 32 + 1, sparse=True), 'big3': F(2 ** 40, sparse=True),
            'small.txt': F(3), 'big4.txt': F(2 ** 40, sparse=True)},
    # sizes near the largest an ext4 file can have, one byte apart: the deviations from the mean are far below the mean's own rounding
    'huge': {'h1': F(17592186040320, sparse=True), 'h2': F(17592186040320, sparse=True), 'h3.txt': F(17592186040319, sparse=True)},
}
# exactly 2^k matching entries (internal batches and buffers have power-of-two sizes)
for _k in (10, 11, 12, 13):
    TREES['pow%d' % _k] = {'f%05d' % i: F(1 + i % 5) for i in range(2 ** _k)}
# ... and a long buffer whose mean is a whole number (every function in front of every other one)
TREES['pow_600'] = {'f%05d' % i: F(1 + i % 5) for i in range(600)}
ARGS = ['size', 'hardlinks', 'uid', 'line_count', 'length(name)', 'size - 10', 'size / 2', '0 - length(name)', '-size', '-length(name)', '1', '2 + 3']
EXPR_ARGS = ('size - 10', 'size / 2', '0 - length(name)', '-size', '-length(name)', '1', '2 + 3')        # values that are negative or fractional
WHERES = [('none', None, lambda e: True), ('all', 'size gte 0', lambda e: True),
          ('files', 'is_file = true', lambda e: e['file']), ('some', 'name like %.txt', lambda e: e['name'].endswith('.txt')),
          ('nomatch', 'size gt 9000000000000000', lambda e: False), ('large', 'size gt 1000000', lambda e: e['size'] > 1000000),
          # the aggregate's argument also occurs in an OR arm that is skipped for some accepted rows and evaluated for rejected ones
          ('orfn', "name = 'a.txt' or length(name) = 2", lambda e: e['name'] == 'a.txt' or len(e['name']) == 2),
          ('fnor', "length(name) = 1 or name like '%.txt'", lambda e: len(e['name']) == 1 or e['name'].endswith('.txt')),
          ('orsz', "name like '%.rs' or size = 2 or size + 1 = 2", lambda e: e['name'].endswith('.rs') or e['size'] in (1, 2))]
SHORT_CIRCUIT = ('orfn', 'fnor', 'orsz')


def subsets(tier):
    if tier == 'thorough':
        for r in range(1, 10):
            for c in itertools.combinations(FUNCS, r):
                yield list(c)
    else:
        for f in FUNCS:
            yield [f]
        for c in itertools.combinations(FUNCS, 2):
            yield list(c)
        yield list(FUNCS)
    for a, b in itertools.permutations(FUNCS, 2):
        if FUNCS.index(a) > FUNCS.index(b):
            yield [a, b]
    for f, als in ALIASES.items():
        for al in als:
            yield ['alias:' + al + ':' + f]


ARITH = [('max(%s) - min(%s)', lambda v: float(max(v) - min(v))), ('sum(%s) / count(*)', lambda v: sum(v) / len(v)),
         ('max(%s) + min(%s) * 2', lambda v: float(max(v) + min(v) * 2)), ('count(*) * 10 + min(%s)', lambda v: float(len(v) * 10 + min(v))),
         ('avg(%s) - min(%s)', lambda v: sum(v) / len(v) - min(v)), ('(max(%s) - min(%s)) / 2', lambda v: (max(v) - min(v)) / 2.0)]


# aggregates over two expressions that read alike, side by side in one query (each must get its own argument values)
TWINS = [('size - 100', lambda e: e['size'] - 100, '-size - 100', lambda e: -e['size'] - 100),
         ('size + 7', lambda e: e['size'] + 7, '-size + 7', lambda e: -e['size'] + 7),
         ('size - hardlinks - 1', lambda e: e['size'] - e['hardlinks'] - 1, 'size - (hardlinks - 1)', lambda e: e['size'] - (e['hardlinks'] - 1)),
         ('size / 2 / 2', lambda e: Fraction(e['size'], 4), 'size / (2 / 2)', lambda e: Fraction(e['size'])),
         ('size * 2 + 1', lambda e: e['size'] * 2 + 1, 'size * (2 + 1)', lambda e: e['size'] * 3),
         ('(size + 1) * 2', lambda e: (e['size'] + 1) * 2, 'size + 1 * 2', lambda e: e['size'] + 2),
         ('size - length(name)', lambda e: e['size'] - e['length(name)'], 'length(name) - size', lambda e: e['length(name)'] - e['size']),
         ('size - (hardlinks + 1)', lambda e: e['size'] - e['hardlinks'] - 1, 'size - hardlinks + 1', lambda e: e['size'] - e['hardlinks'] + 1),
         ('hardlinks - size - 1', lambda e: e['hardlinks'] - e['size'] - 1, '-hardlinks - size - 1', lambda e: -e['hardlinks'] - e['size'] - 1),
         ('size + 1', lambda e: e['size'] + 1, 'size +1', lambda e: e['size'] + 1), ('size', lambda e: e['size'], 'SIZE', lambda e: e['size']),
         ('size - 1 - 1', lambda e: e['size'] - 2, 'size - (1 - 1)', lambda e: e['size'])]


def groups(tier, seed):
    # no entry at all because no place is searched (regexp roots that match nothing): the one row of an aggregate query is still there
    yield {'kind': 'noplace', 'tree': 'three', 'where': 'none', 'arg': 'size', 'cases': []}
    for tname in ('three', 'mixed', 'two'):
        for wname in ('none', 'files'):
            yield {'kind': 'twins', 'tree': tname, 'where': wname, 'arg': 'size', 'cases': []}
    # arithmetic over aggregates (the operand is computed per row only inside the aggregate)
    for tname in ('three', 'mixed', 'two'):
        for arg in ('size', 'length(name)', 'hardlinks'):
            yield {'tree': tname, 'arg': arg, 'where': 'none', 'cases': [{'funcs': ['arith:%d' % i], 'style': 0} for i in range(len(ARITH))]}
            yield {'tree': tname, 'arg': arg, 'where': 'files', 'cases': [{'funcs': ['arith:%d' % i], 'style': 0} for i in range(len(ARITH))]}
    for tname in TREES:
        for arg in ARGS:
            for wname, wtext, _ in WHERES:
                if arg == 'line_count' and (wname not in ('files', 'some', 'nomatch') or tname in ('big', 'close', 'huge')):
                    continue
                if wname in SHORT_CIRCUIT and arg not in ('length(name)', 'size'):
                    continue
                if arg in EXPR_ARGS and (tname not in ('two', 'three', 'mixed') or wname not in ('none', 'files', 'nomatch')):
                    continue
                if tname.startswith('pow'):
                    # expensive rows: one or two queries per tree (the subject needs seconds for thousands of buffered rows)
                    if arg != 'size' or wname not in ('none', 'files') or (tname == 'pow13' and wname == 'files' and tier == 'quick'):
                        continue
                    sets_ = [['count', 'min', 'max']] if wname == 'files' else [['count', 'min', 'max'], FUNCS[:5], FUNCS]
                    if tname == 'pow_600':
                        sets_ = [list(reversed(FUNCS))] + ([[a_, b_] for a_, b_ in itertools.permutations(FUNCS[1:], 2)] if wname == 'none' else [])
                    yield {'tree': tname, 'arg': arg, 'where': wname, 'cases': [{'funcs': ss, 'style': 0} for ss in sets_]}
                    continue
                cases = []
                for i, ss in enumerate(subsets(tier)):
                    style = i % 4
                    cases.append({'funcs': ss, 'style': style})
                yield {'tree': tname, 'arg': arg, 'where': wname, 'cases': cases}


def single(case):
    if case.get('kind') == 'noplace':
        return {'kind': 'noplace', 'tree': case['tree'], 'where': case['where'], 'arg': 'size', 'cases': [], 'only': case['query']}
    if case.get('kind') == 'twins':
        return {'kind': 'twins', 'tree': case['tree'], 'where': case['where'], 'arg': 'size', 'cases': [], 'only': case['query']}
    return {'tree': case['tree'], 'arg': case['arg'], 'where': case['where'],
            'cases': [{'funcs': case['funcs'], 'style': case['style']}]}


def entries(root):
    # line counts are computed for small files only (the `big` tree is never asked for line_count)
    res = []
    for dp, dns, fns in os.walk(root):
        for n in dns + fns:
            p = os.path.join(dp, n)
            st = os.lstat(p)
            isf = os.path.isfile(p) and not os.path.islink(p)
            lc = None
            if isf and st.st_size < (1 << 24):
                with open(p, 'rb') as f:
                    lc = 0
                    while True:
                        b = f.read(1 << 20)
                        if not b:
                            break
                        lc += b.count(b'\n')
            res.append({'name': n, 'file': isf, 'size': st.st_size, 'hardlinks': st.st_nlink, 'uid': st.st_uid,
                        'line_count': lc, 'length(name)': len(n), 'size - 10': st.st_size - 10, 'size / 2': Fraction(st.st_size, 2),
                        '0 - length(name)': -len(n), '-size': -st.st_size, '-length(name)': -len(n), '1': 1, '2 + 3': 5})
    return res


def expected(func, vals):
    n = len(vals)
    if func == 'count':
        return n
    if n == 0:
        return None
    s = sum(vals)
    if func == 'sum':
        return s
    if func == 'min':
        return min(vals)
    if func == 'max':
        return max(vals)
    mean = Fraction(s, n)
    if func == 'avg':
        return mean
    ss = sum((Fraction(v) - mean) ** 2 for v in vals)
    if func in ('var_pop', 'stddev_pop'):
        v = ss / n
    else:
        if n < 2:
            return None
        v = ss / (n - 1)
    return v if func.startswith('var') else math.sqrt(v)


def close(a, b):
    a, b = float(a), float(b)
    return abs(a - b) <= 1e-9 * max(1.0, abs(a), abs(b))


def eval_group(env, group, tier):
    root = env.newdir('c7')
    core.materialise(root, TREES[group['tree']])
    arg = group['arg']
    wname, wtext, pred = next(w for w in WHERES if w[0] == group['where'])
    outs = []
    try:
        ents = [e for e in entries(root) if pred(e)]
        vals = [e[arg] for e in ents]
        if any(v is None for v in vals):
            raise core.MachineryError('model has no value for %s' % arg)
        wclause = (' where ' + wtext) if wtext else ''
        o = env.run(['path from .' + wclause + ' into list'], cwd=root)
        m_diff = len(o.rows())
        if o.rc != 0 or m_diff != len(ents):
            raise core.MachineryError('C07 model/differential row count disagree: %d vs %d %r' % (m_diff, len(ents), o.brief()))
        if group.get('kind') == 'noplace':
            for cols in (['count(*)'], ['count(*)', 'sum(size)'], ['sum(size)', 'min(size)', 'max(size)', 'avg(size)'], ['%s(%s)' % (f, '*' if f == 'count' else 'size') for f in FUNCS],
                         ['count(*)', 'sum(length(name))'], ['max(size) - min(size)', 'count(*) * 10']):
                ref = env.run([', '.join(cols) + ' from . where size gt 9000000000000000 into list'], cwd=root)
                for frm in ("'zz.*' rx", "'q[0-9]+' regexp, 'zz.*' rx", "'zz.*' rx depth 2", "'zz.*' rx dfs", "'zz.*' rx archives symlinks"):
                    for fmt in ('list', 'json', 'csv'):
                        q = ', '.join(cols) + ' from ' + frm + ' into ' + fmt
                        if group.get('only') is not None and group['only'] != q:
                            continue
                        reff = ref if fmt == 'list' else env.run([', '.join(cols) + ' from . where size gt 9000000000000000 into ' + fmt], cwd=root)
                        o = env.run([q], cwd=root)
                        res = {'case': {'kind': 'noplace', 'tree': group['tree'], 'where': wname, 'query': q}, 'nt': True, 'layer': 'no-place-searched'}
                        if reff.rc != 0 or not reff.out:
                            raise core.MachineryError('C07 reference of the empty aggregate failed %r' % reff.brief())
                        if o.rc != 0 or o.err or o.out != reff.out:
                            res.update(status='viol', cls='not-one-row-or-status', detail=dict(o.brief(), query=q, expected=reff.out.decode('utf-8', 'replace')[:200]), sig=('noplace',))
                        else:
                            res.update(status='ok', sig=(o.out,))
                        outs.append(res)
            return outs
        if group.get('kind') == 'twins':
            for a, fa, b_, fb in TWINS:
                for first, second in (((a, fa), (b_, fb)), ((b_, fb), (a, fa))):
                    for fns in (('sum', 'sum'), ('min', 'max'), ('avg', 'sum'), ('max', 'min')):
                        cols = ['%s(%s)' % (fns[0], first[0]), '%s(%s)' % (fns[1], second[0])]
                        q = ', '.join(cols) + ' from .' + wclause + ' into list'
                        if group.get('only') is not None and group['only'] != q:
                            continue
                        o = env.run([q], cwd=root)
                        res = {'case': {'kind': 'twins', 'tree': group['tree'], 'where': wname, 'query': q}, 'nt': len(ents) >= 2, 'layer': 'twin-arguments'}
                        rows = o.rows(2)
                        want = [expected(fns[0], [first[1](e) for e in ents]), expected(fns[1], [second[1](e) for e in ents])]
                        ok = o.rc == 0 and not o.err and rows is not None and len(rows) == 1
                        if ok:
                            try:
                                ok = all(close(g, w) for g, w in zip(rows[0], want))
                            except ValueError:
                                ok = False
                        if not ok:
                            res.update(status='viol', cls='twin-arguments', detail={'query': q, 'got': rows, 'expected': [str(float(w)) for w in want]}, sig=('twin',))
                        else:
                            res.update(status='ok', sig=tuple(rows[0]))
                        outs.append(res)
            return outs
        for c in group['cases']:
            if c['funcs'][0].startswith('arith:'):
                tmpl, fexp = ARITH[int(c['funcs'][0][6:])]
                col = tmpl.replace('%s', arg)
                q = col + ' from .' + wclause + ' into list'
                o = env.run([q], cwd=root)
                case = {'tree': group['tree'], 'arg': arg, 'where': wname, 'funcs': c['funcs'], 'style': 0, 'query': q}
                res = {'case': case, 'nt': len(set(vals)) >= 2, 'layer': 'arith'}
                rows = o.rows()
                ok = o.rc == 0 and not o.err and len(rows) == 1 and vals
                if ok:
                    try:
                        ok = close(rows[0], fexp(vals))
                    except ValueError:
                        ok = False
                if not vals:
                    continue
                if not ok:
                    res.update(status='viol', cls='wrong-aggregate-arithmetic', detail={'query': q, 'got': rows, 'expected': fexp(vals), 'values': vals[:12]}, sig=('arith',))
                else:
                    res.update(status='ok', sig=tuple(rows))
                outs.append(res)
                continue
            names = []
            for f in c['funcs']:
                if f.startswith('alias:'):
                    _, al, real = f.split(':')
                    names.append((al, real))
                else:
                    names.append((f, f))
            o_, c_ = [('(', ')'), ('{', '}'), ('(', ')'), ('( ', ' )')][c['style']]      # (blanks inside the bracket change nothing: count( * ))
            cols = []
            for shown, real in names:
                fn = shown.upper() if c['style'] == 2 else shown
                cols.append(fn + o_ + ('*' if real == 'count' else arg) + c_)
            q = ', '.join(cols) + ' from .' + wclause + ' into list'
            # thousands of buffered rows: an answer within the horizon all the same (the aggregate is computed once, not per row)
            o = env.run([q], cwd=root, timeout=30.0 if group['tree'].startswith('pow') else 10.0)
            case = {'tree': group['tree'], 'arg': arg, 'where': wname, 'funcs': c['funcs'], 'style': c['style'], 'query': q}
            res = {'case': case, 'nt': len(set(vals)) >= 2, 'layer': 'n=%d' % len(names)}
            rows = o.rows(len(cols))
            if o.timeout or o.rc != 0 or o.err or rows is None or len(rows) != 1:
                res.update(status='viol', cls='not-one-row-or-status', detail=dict(o.brief(), query=q), sig=('err',))
                outs.append(res)
                continue
            row = rows[0] if len(cols) > 1 else (rows[0],)
            bad = None
            for (shown, real), got in zip(names, row):
                exp = expected(real, vals)
                if exp is None:
                    continue
                try:
                    if real in ('count', 'sum', 'min', 'max') and isinstance(exp, int):
                        ok = int(got) == exp
                    else:
                        ok = close(got, exp)
                except ValueError:
                    ok = False
                if not ok:
                    bad = (real, got, str(float(exp)) if not isinstance(exp, int) else exp)
                    break
            if not bad and len(names) in (1, 9):
                # the one row carries exactly the selected columns in every format (observed through `into json`)
                import json as _json
                oj = env.run([q.replace(' into list', ' into json')], cwd=root, timeout=30.0 if group['tree'].startswith('pow') else 10.0)
                try:
                    objs = _json.loads(oj.out.decode('utf-8', 'replace'))
                    okj = isinstance(objs, list) and len(objs) == 1 and len(objs[0]) == len(set(cols)) and sorted(objs[0].values()) == sorted(row)
                except ValueError:
                    okj = False
                if not okj:
                    bad = ('row-shape-json', oj.out[:200].decode('utf-8', 'replace'), list(row))
            if bad:
                cls = 'wrong-' + bad[0]
                res.update(status='viol', cls=cls, detail={'query': q, 'func': bad[0], 'got': bad[1], 'expected': bad[2], 'values': vals[:20]},
                           sig=('viol', bad[0]))
            else:
                res.update(status='ok', sig=tuple(row))
            outs.append(res)
    finally:
        env.rmtree(root)
    return outs
