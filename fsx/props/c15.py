"""C15 Expressions follow arithmetic rules and each column is evaluated on its own."""
import itertools
import math
import os

from fsx import core
from fsx.core import D, F

ID = 'C15'
LEVEL = 'model_checking'
RULE = ('every expression tree with <= K operators (quick 2, thorough 3) over {+ - * / %} (symbol and word forms), operands '
        '{2, 3, size, hardlinks} (+ length(name), 7, -3, -size, abs(..), pow(2,3), -length(name) at K<=1), minimal and full '
        'bracketing (round and curly), with and without spaces around operators; independence: every ordered pair of a pool of expressions that differ only in one '
        'operator, in bracket placement, in sign, in a later function argument or in the letter case of a string literal, and expressions that read the entry only through functions (contains), and select lists of 3..5; WHERE e OP n for '
        'n in {v-1, v, v+1}; division by zero excluded; non-trivial = value differs between rows or between pair members')
MC_NOTE = ('expression space explored breadth-first by number of operators; the pair space of the pool is complete; every '
           'state is executed on the real binary and compared with a float evaluator')
ASSUMPTIONS = ['values compared numerically (relative 1e-9); IEEE double arithmetic; % is the C fmod',
               'a bracketed operand cannot carry a leading minus (`-(a+b)` is rejected by the parser with status 2; not generated)']
BUDGET = {'quick': 50, 'thorough': 1200}

OPS = {'+': ('+', 'plus'), '-': ('-', 'minus'), '*': ('*', 'mul'), '/': ('/', 'div'), '%': ('%', 'mod')}
PREC = {'+': 1, '-': 1, '*': 2, '/': 2, '%': 2}
CORE_OPERANDS = ['2', '3', 'size', 'hardlinks']
EXT_OPERANDS = ['length(name)', '7', '-3', '-size', 'abs(0 - size)', 'pow(2, 3)', '-length(name)', '-hardlinks', 'abs(-3)']


def bounds(tier):
    return {'max_operators': 2 if tier == 'quick' else 3, 'pool_pairs': len(pool(tier)) ** 2}


def the_tree():
    return {'a': F(1), 'bb': F(4), 'ccc': F(7), 'dddd': F(10), 'e5': F(250), 'h1': F(5), 'h2': {'t': 'f', 'link': 'h1'},
            'h3': {'t': 'f', 'link': 'h1'}, 'k1': F(12), 'k2': {'t': 'f', 'link': 'k1'},
            'AaBb': F(data='alpha only, 11'), 'bAAb': F(data='beta here'), 'ABab': F(data='alpha and beta together'), 'none': F(data='neither'),
            'hdr': F(data='Size Name Path 10 hdr\n')}


# text-valued and literal expressions whose spelling resembles another column's: each one's value in company
# (every ordered pair) must be its value alone; a literal's value is its text
COMPANY = ["'Size'", 'size', "'Name'", 'name', "'size'", "'Path'", 'path', "'IsDir'", 'is_dir', "'Modified'", "'1'", '1',
           "'Size + 1'", 'size + 1', "concat('Size', 'x')", "concat(size, 'x')", "contains('Size')", "contains('Name')",
           "contains(name)", "upper('Name')", 'upper(name)', "length('Size')", 'length(size)', "'LENGTH(Name)'", 'length(name)',
           "'Hardlinks'", 'hardlinks', "lower('Size')", "coalesce('Name', 'x')", "concat_ws('-', 'Size', size)",
           # a quote inside a literal: the two calls read alike once the quotes are stripped
           'concat("a\', \'b")', "concat('a', 'b')", 'length(concat("a\', \'b"))', "length(concat('a', 'b'))"]


def shapes(k):
    if k == 0:
        yield None
        return
    for i in range(k):
        for l in shapes(i):
            for r in shapes(k - 1 - i):
                yield (l, r)


def fill(sh, ops, leaves):
    oi, li = iter(ops), iter(leaves)

    def rec(n):
        if n is None:
            return next(li)
        l = rec(n[0])
        op = next(oi)
        r = rec(n[1])
        return [op, l, r]
    # ops consumed in-order of traversal (left subtree, node, right subtree)
    return rec(sh)


def enum_exprs(k, operands):
    for sh in shapes(k):
        for ops in itertools.product('+-*/%', repeat=k):
            for leaves in itertools.product(operands, repeat=k + 1):
                yield fill(sh, ops, leaves)


def render(e, style=0, words=False):
    """style 0: minimal brackets (precedence, left associativity); 1: full round; 2: full curly"""
    o, c = ('{', '}') if style == 2 else ('(', ')')

    def rec(n, parent_prec, right_side):
        if isinstance(n, str):
            return n
        op, l, r = n
        p = PREC[op]
        s = rec(l, p, False) + ' ' + (OPS[op][1] if words else op) + ' ' + rec(r, p, True)
        if style in (1, 2) and parent_prec is not None:
            return o + s + c
        if parent_prec is not None and (p < parent_prec or (p == parent_prec and right_side)):
            return o + s + c
        return s
    return rec(e, None, False)


def operand_value(tok, ent):
    neg = tok.startswith('-')
    t = tok[1:] if neg else tok
    if t == 'size':
        v = float(ent['size'])
    elif t == 'hardlinks':
        v = float(ent['nlink'])
    elif t == 'length(name)':
        v = float(len(ent['name']))
    elif t == 'abs(0 - size)':
        v = float(ent['size'])
    elif t == 'pow(2, 3)':
        v = 8.0
    elif t == 'abs(-3)':
        v = 3.0
    else:
        v = float(t)
    return -v if neg else v


def evaluate(e, ent):
    if isinstance(e, str):
        return operand_value(e, ent)
    op, l, r = e
    a, b = evaluate(l, ent), evaluate(r, ent)
    if op == '+':
        return a + b
    if op == '-':
        return a - b
    if op == '*':
        return a * b
    if b == 0:
        raise ZeroDivisionError
    if op == '/':
        return a / b
    return math.fmod(a, b)


def flat(e):
    if isinstance(e, str):
        return [e]
    return flat(e[1]) + flat(e[2])


def nops(e):
    return 0 if isinstance(e, str) else 1 + nops(e[1]) + nops(e[2])


def pool(tier):
    """expressions chosen so that the pool contains pairs differing only in one operator, in
    bracket placement, in sign, or in a later function argument"""
    p = ['size + 1', 'size * 1', 'size - 1', 'size / 1', 'size % 3', '2 + 3 * 4', '(2 + 3) * 4', '2 * 3 + 4', '2 * (3 + 4)',
         'size', '-size', 'hardlinks', '-hardlinks', 'size + hardlinks', 'size * hardlinks', 'hardlinks + size',
         'pow(2, 3)', 'pow(2, 4)', 'pow(3, 2)', 'length(name)', '-length(name)', 'length(name) + 1', 'length(name) * 1',
         '10 - 2 - 3', '10 - (2 - 3)', '100 / 10 / 2', '100 / (10 / 2)', '3', '-3', '7 % 4', '7 % 4 * 2', '7 % (4 * 2)',
         'abs(0 - size)', 'abs(size - 300)', 'size - 300', 'size plus 1', 'size mul 1', '{2 + 3} * 4',
         "length(replace(name, 'A', 'xyz')) * 2 + size", "length(replace(name, 'a', 'xyz')) * 2 + size",
         "length(replace(name, 'B', 'q')) + 1", "length(replace(name, 'b', 'q')) + 1",
         "contains('alpha') + contains('beta')", "contains('beta') + contains('alpha') * 2", "contains('alpha') * 10 + 1",
         '(size*2)', '(size/2)+1', 'pow(size/2, 2)', '(size%3)*2', '(hardlinks*size)-1', '{size*2}']
    if tier == 'thorough':
        p += ['size + 2', 'size * 2', 'size - 2', 'size / 2', 'size % 2', 'size + 1 + 1', 'size + (1 + 1)', 'size * 2 + 1',
              'size * (2 + 1)', 'least(size, 5)', 'least(size, 6)', 'greatest(size, 5)', 'greatest(size, 6)', 'pow(size, 2)',
              'pow(size, 3)', 'size / hardlinks', 'size % hardlinks', 'hardlinks - size', 'size - hardlinks', '2 - 3', '3 - 2',
              'sqrt(size)', 'sqrt(hardlinks)', 'hardlinks * hardlinks', 'hardlinks + hardlinks', '-size + 1', '-size - 1']
    return p


def _cont(e, w):
    return 1.0 if w in e.get('text', '') else 0.0


POOL_TEXT_VALUES = {
    "length(replace(name, 'A', 'xyz')) * 2 + size": lambda e: len(e['name'].replace('A', 'xyz')) * 2.0 + e['size'],
    "length(replace(name, 'a', 'xyz')) * 2 + size": lambda e: len(e['name'].replace('a', 'xyz')) * 2.0 + e['size'],
    "length(replace(name, 'B', 'q')) + 1": lambda e: len(e['name'].replace('B', 'q')) + 1.0,
    "length(replace(name, 'b', 'q')) + 1": lambda e: len(e['name'].replace('b', 'q')) + 1.0,
    "contains('alpha') + contains('beta')": lambda e: _cont(e, 'alpha') + _cont(e, 'beta'),
    "contains('beta') + contains('alpha') * 2": lambda e: _cont(e, 'beta') + _cont(e, 'alpha') * 2,
    "contains('alpha') * 10 + 1": lambda e: _cont(e, 'alpha') * 10 + 1,
    '(size*2)': lambda e: e['size'] * 2.0, '(size/2)+1': lambda e: e['size'] / 2.0 + 1, 'pow(size/2, 2)': lambda e: (e['size'] / 2.0) ** 2,
    '(size%3)*2': lambda e: math.fmod(e['size'], 3) * 2, '(hardlinks*size)-1': lambda e: e['nlink'] * e['size'] - 1.0, '{size*2}': lambda e: e['size'] * 2.0,
}
POOL_VALUES = {
    'least(size, 5)': lambda e: min(e['size'], 5.0), 'least(size, 6)': lambda e: min(e['size'], 6.0),
    'greatest(size, 5)': lambda e: max(e['size'], 5.0), 'greatest(size, 6)': lambda e: max(e['size'], 6.0),
    'pow(size, 2)': lambda e: float(e['size']) ** 2, 'pow(size, 3)': lambda e: float(e['size']) ** 3,
    'sqrt(size)': lambda e: math.sqrt(e['size']), 'sqrt(hardlinks)': lambda e: math.sqrt(e['nlink']),
    'pow(2, 4)': lambda e: 16.0, 'pow(3, 2)': lambda e: 9.0, 'abs(size - 300)': lambda e: abs(e['size'] - 300.0),
}


def pool_value(text, ent):
    if text in POOL_TEXT_VALUES:
        return POOL_TEXT_VALUES[text](ent)
    return _pool_value(text, ent)


def _pool_value(text, ent):
    """value of a pool expression through a tiny recursive-descent evaluator over the same grammar"""
    toks = tokenize(text)
    pos = [0]

    def peek():
        return toks[pos[0]] if pos[0] < len(toks) else None

    def take():
        pos[0] += 1
        return toks[pos[0] - 1]

    def atom():
        t = take()
        if t in '({':
            v = addsub()
            take()
            return v
        neg = False
        if t == '-':
            neg = True
            t = take()
        if peek() == '(' and t.isalpha():
            # function call: capture text up to the matching bracket
            depth, start = 0, pos[0]
            while True:
                x = take()
                if x == '(':
                    depth += 1
                elif x == ')':
                    depth -= 1
                    if depth == 0:
                        break
            inner = toks[start + 1:pos[0] - 1]
            key = t + '(' + render_tokens(inner) + ')'
            v = POOL_VALUES[key](ent) if key in POOL_VALUES else operand_value(key, ent)
        else:
            v = operand_value(t, ent)
        return -v if neg else v

    def muldiv():
        v = atom()
        while peek() in ('*', '/', '%', 'mul', 'div', 'mod'):
            op = take()
            w = atom()
            if op in ('*', 'mul'):
                v = v * w
            elif w == 0:
                raise ZeroDivisionError
            elif op in ('/', 'div'):
                v = v / w
            else:
                v = math.fmod(v, w)
        return v

    def addsub():
        v = muldiv()
        while peek() in ('+', '-', 'plus', 'minus'):
            op = take()
            w = muldiv()
            v = v + w if op in ('+', 'plus') else v - w
        return v
    return addsub()


def tokenize(text):
    import re
    return re.findall(r'[A-Za-z_]+|\d+|[-+*/%(){},]', text)


def render_tokens(toks):
    s = ''
    for t in toks:
        if t == ',':
            s += ', '
        elif t in '+-*/%' and s and s[-1] not in '( ':
            s += ' ' + t + ' '
        else:
            s += t
    return s


def groups(tier, seed):
    K = 2 if tier == 'quick' else 3
    seen = set()
    chunk = []

    def push(case):
        chunk.append(case)
        if len(chunk) >= 100:
            g = {'cases': list(chunk)}
            chunk.clear()
            return g
    idx = 0
    for k in range(0, K + 1):
        operands = CORE_OPERANDS + (EXT_OPERANDS if k <= 1 else []) if k < 3 else ['2', 'size', '3']
        for e in enum_exprs(k, operands):
            styles = (0, 1, 2) if k <= 1 else ((0,) if tier == 'quick' else (0, 1))
            for st in styles:
                for words in ((False, True, 'compact') if (k <= 1 or idx % 7 == 0) else (False, 'compact') if idx % 3 == 0 else (False,)):
                    txt = render(e, st, words is True)
                    if words == 'compact':
                        if k == 0 or any(isinstance(x, str) and x.startswith('-') for x in flat(e)):
                            continue
                        txt = txt.replace(' + ', '+').replace(' - ', '-').replace(' * ', '*').replace(' / ', '/').replace(' % ', '%')
                    idx += 1
                    if txt in seen:
                        continue
                    seen.add(txt)
                    g = push({'kind': 'value', 'e': e, 'text': txt, 'k': k})
                    if g:
                        yield g
    p = pool(tier)
    for a, b in itertools.product(p, repeat=2):
        if a == b:
            continue
        g = push({'kind': 'pair', 'cols': [a, b]})
        if g:
            yield g
    for n in (3, 4, 5):
        for i in range(len(p)):
            cols = [p[(i + j * (n + 1)) % len(p)] for j in range(n)]
            if len(set(cols)) == n:
                g = push({'kind': 'pair', 'cols': cols})
                if g:
                    yield g
    for e in p:
        for opn in ('=', '!=', '>', '>=', '<', '<='):
            g = push({'kind': 'where', 'e': e, 'op': opn})
            if g:
                yield g
    if chunk:
        yield {'cases': list(chunk)}
        chunk.clear()
    # names with an underscore glued to an operator
    yield {'cases': [{'kind': 'compact-underscore', 'a': a, 'b': b} for a, b in (('line_count*2', 'line_count * 2'), ('line_count+1', 'line_count + 1'),
                                                                                  ('2*line_count', '2 * line_count'), ('line_count%2', 'line_count % 2'),
                                                                                  ('length(name)*line_count', 'length(name) * line_count'))]}
    # two calls that differ only in how a literal is spelt (each is its own text)
    yield {'cases': [{'kind': 'literal-spelling', 'a': a, 'b': b} for a, b in (
        ("concat(name, '.1')", "concat(name, '.10')"), ('concat(size, 07)', 'concat(size, 7)'), ('concat(name, 5)', 'concat(name, 5.0)'), ("concat('0x', 010)", "concat('0x', 10)"),
        ("length(concat(size, 07))", "length(concat(size, 7))"), ("concat(name, '1e3')", "concat(name, '1000')"), ("upper(concat('v', '1.0'))", "upper(concat('v', '1'))"),
        ("concat(name, ' ', '+5')", "concat(name, ' ', '5')"), ("concat(size, '2K')", "concat(size, '2k')"), ("concat(name, '1 M')", "concat(name, '1m')"),
        ("upper(concat('v', '1KB'))", "lower(concat('v', '1kb'))"), ("length(concat(size, '1 kib'))", "length(concat(size, '1kib'))"), ("concat(name, '1.50G')", "concat(name, '1.5g')"),
        ("concat(name, '10B')", "concat(name, '10')"), ("concat(name, 'TRUE')", "concat(name, 'true')"), ("concat(name, '2024-01-01')", "concat(name, '2024-1-1')"))]}
    # an operator glued to its left operand only, a size literal as operand, a sign in front of a bracket
    yield {'cases': [{'kind': 'compact-underscore', 'a': a, 'b': b} for a, b in (
        ('size* 2', 'size * 2'), ('size+ 1', 'size + 1'), ('10- 4- 3', '10 - 4 - 3'), ('2- -3', '2 - -3'), ('size/ 2', 'size / 2'), ('size% 2', 'size % 2'), ('hardlinks* size', 'hardlinks * size'),
        ('size*1k', 'size * 1k'), ('1k*2', '1k * 2'), ('2*1k', '2 * 1k'), ('1k+1', '1k + 1'), ('1.5k-512', '1.5k - 512'), ('1m/1k', '1m / 1k'), ('size+1kb', 'size + 1kb'),
        ('2k + -1k', '2k - 1k'), ('-1k + 2k', '2k - 1k'), ('2k - -1k', '2k + 1k'),
        ('-(size + 1)', '0 - (size + 1)'), ('2 * -(size)', '2 * (0 - size)'), ('-(size)', '0 - size'), ('-{size + 1}', '0 - (size + 1)'), ('+(size + 1)', 'size + 1'), ('10 - -(size)', '10 + size'),
        ('0 minus size', '0 - size'), ('minus 5 plus size', '-5 + size'), ('size mul minus 3', 'size * -3'), ('plus size', 'size'))]}
    # two or more operators glued into one word before a bracket or a blank (the right operand of the last one stands behind it)
    yield {'cases': [{'kind': 'compact-underscore', 'a': a, 'b': b} for a, b in (
        ('3+2*(size+size)', '3 + 2 * (size + size)'), ('1+2*(3)', '1 + 2 * 3'), ('3-2*(size)', '3 - 2 * size'), ('size+2*(size)', 'size + 2 * size'), ('3+2* (size)', '3 + 2 * size'),
        ('3+2/(size+1)', '3 + 2 / (size + 1)'), ('3*2*(size)', '3 * 2 * size'), ('3+2+(size)', '3 + 2 + size'), ('3+2* size', '3 + 2 * size'), ('1+2+3*(size)', '1 + 2 + 3 * size'),
        ('2+3*{size}', '2 + 3 * size'), ('size-1-(2)', 'size - 1 - 2'), ('size*2-(size)', 'size * 2 - size'), ('size%3+2*(hardlinks)', 'size % 3 + 2 * hardlinks'),
        ('10-4- 3', '10 - 4 - 3'), ('size+1+ 1', 'size + 1 + 1'), ('2*3*(4)*5', '2 * 3 * 4 * 5'), ('1+2*(3)+4*(5)', '1 + 2 * 3 + 4 * 5'))]}
    # compact expressions of every length from 6 to 90 characters (the word rules look ahead a fixed number of characters): as their spaced twins
    win = []
    for tail in ('uid', 'size', 'hardlinks', 'mp3_year'):
        for j in range(0, 40):
            a = 'size' + '+1' * j + '+0*' + tail if tail != 'mp3_year' else 'size' + '+1' * j + '+length(name)*2'
            win.append({'kind': 'compact-underscore', 'a': a, 'b': a.replace('+', ' + ').replace('*', ' * ')})
    for i in range(0, len(win), 16):
        yield {'cases': win[i:i + 16]}
    # an expression on the right of a comparison, written without blanks
    yield {'cases': [{'kind': 'where-rhs', 'e': e, 'op': o} for e in ('2*3', '12/2', '14%8', 'size*1', '2*3+1', '(2*3)', '1+2*3', '2 * 3', '10-2*2', 'hardlinks*5',
                                                                        '5 / 2', '7/2', 'size/2', '2030-2024', '20000-19995', '2024-size', '2000-10', '2017-5', 'hardlinks_x' if False else '2000-1993')
                     for o in ('=', '!=', '>=', '<', 'gte', 'eq')]}
    # the same operand (with a function call in it) asked for twice by one WHERE clause, against literals that only a numeric comparison understands
    yield {'cases': [{'kind': 'where-twice', 'e': e, 'shape': sh} for e in ('length(name) * size * 100', 'abs(size - 100) * 10', 'size * 100 / greatest(hardlinks, 1)', 'size * 100')
                     for sh in range(7)]}
    # a condition on an expression with the same digits under both signs
    yield {'cases': [{'kind': 'where-signed', 'e': e, 'k': k, 'shape': sh} for e in ('size - 10', 'size * 2 - 20', 'size % 7 - 3', '0 - size', 'size / 2 - 5')
                     for k in (1, 3, 5, 12) for sh in range(5)]}
    # the shown value of an expression that also occurs in a WHERE arm which is skipped for some rows
    uf = [e for e in p if not any(w in e for w in ('contains', 'replace', '{', 'plus', 'mul')) and ('size' in e or 'hardlinks' in e or 'name' in e)]
    for i in range(0, len(uf), 6):
        yield {'cases': [{'kind': 'under-filter', 'e': e, 'shape': sh, 'rd': rd} for e in uf[i:i + 6] for sh in range(4) for rd in ('sorted', 'rev')]}
    for a in COMPANY:
        yield {'cases': [{'kind': 'company', 'cols': [a, b]} for b in COMPANY if b != a] +
                        [{'kind': 'company', 'cols': [COMPANY[(COMPANY.index(a) + 1 + j * 3) % len(COMPANY)] for j in range(4)] + [a]}]}


def single(case):
    return {'cases': [case]}


def close(a, b):
    return abs(a - b) <= 1e-9 * max(1.0, abs(a), abs(b))


def entries(root):
    res = []
    for n in sorted(os.listdir(root)):
        st = os.lstat(os.path.join(root, n))
        txt = ''
        if st.st_size < 100 and n in ('AaBb', 'bAAb', 'ABab', 'none'):
            txt = open(os.path.join(root, n)).read()
        res.append({'name': n, 'size': st.st_size, 'nlink': st.st_nlink, 'text': txt})
    return res


def fnum(s):
    try:
        return float(s)
    except ValueError:
        return None


def eval_group(env, group, tier):
    root = env.newdir('c15')
    core.materialise(root, the_tree())
    outs = []
    try:
        ents = entries(root)
        byname = {e['name']: e for e in ents}
        for c in group['cases']:
            kind = c['kind']
            r = {'case': c, 'layer': kind + (':k=%d' % c['k'] if 'k' in c else '')}
            if kind == 'company':
                outs.append(company(env, root, c, r, len(ents)))
                continue
            if kind == 'literal-spelling':
                qa, qb, qab = ('name, %s where is_file = true into list' % c['a'], 'name, %s where is_file = true into list' % c['b'],
                               'name, %s, %s where is_file = true into list' % (c['a'], c['b']))
                oa, ob, oab = env.run([qa], cwd=root), env.run([qb], cwd=root), env.run([qab], cwd=root)
                da, db = dict(oa.rows(2) or []), dict(ob.rows(2) or [])
                rows = oab.rows(3) or []
                r['nt'] = True
                r['trans'] = len(rows)
                bad = [x for x in rows if x[1] != da.get(x[0]) or x[2] != db.get(x[0])]
                if oab.rc != 0 or oab.err or not rows or bad or da == db:
                    r.update(status='viol', cls='value:literal-spelling', sig=('litspell',), detail={'query': qab, 'row': bad[:1], 'alone': [da.get(bad[0][0]), db.get(bad[0][0])] if bad else None})
                else:
                    r.update(status='ok', sig=('litspell', c['a']))
                outs.append(r)
                continue
            if kind == 'compact-underscore':
                q = 'name, %s, %s where is_file = true into list' % (c['a'], c['b'])
                o = env.run([q], cwd=root)
                rows = o.rows(3) or []
                r['nt'] = True
                r['trans'] = len(rows)
                bad = [x for x in rows if x[1] != x[2] or fnum(x[1]) is None]
                if o.rc != 0 or o.err or not rows or bad:
                    r.update(status='viol', cls='value:compact-name-with-underscore', sig=('compact_',), detail={'query': q, 'rows': (bad or rows)[:3], 'err': o.brief()['err']})
                else:
                    r.update(status='ok', sig=('compact_', c['a']))
                outs.append(r)
                continue
            if kind == 'where-rhs':
                f = {'=': lambda a, b: a == b, 'eq': lambda a, b: a == b, '!=': lambda a, b: a != b, '>=': lambda a, b: a >= b, 'gte': lambda a, b: a >= b,
                     '<': lambda a, b: a < b}[c['op']]
                try:
                    want = sorted(x['name'] for x in ents if f(float(x['size']), pool_value(c['e'].replace(' ', ''), x)))
                except ZeroDivisionError:
                    continue
                q = 'name where size %s %s into list' % (c['op'], c['e'])
                o = env.run([q], cwd=root)
                r['nt'] = True
                r['trans'] = len(ents)
                if o.rc != 0 or o.err or sorted(o.rows()) != want:
                    r.update(status='viol', cls='where-expression', sig=('where-rhs',),
                             detail={'query': q, 'got': sorted(o.rows()), 'expected': want, 'err': o.brief()['err']})
                else:
                    r.update(status='ok', sig=('where-rhs', c['e'], c['op']))
                outs.append(r)
                continue
            if kind == 'where-twice':
                e_ = c['e']
                cond, f = [('%s between 1k and 5k' % e_, lambda v: 1024 <= v <= 5120), ('%s < 1k or %s > 5k' % (e_, e_), lambda v: v < 1024 or v > 5120),
                           ('%s >= 1k and %s <= 5k' % (e_, e_), lambda v: 1024 <= v <= 5120), ('not %s < 1k and %s < 0.01m' % (e_, e_), lambda v: 1024 <= v < 10485.76),
                           ('%s not between 1k and 5k' % e_, lambda v: not 1024 <= v <= 5120), ('%s > 0.5kb and %s > 1k' % (e_, e_), lambda v: v > 1024),
                           ('%s != 1k and (%s < 1k or %s >= 2kib)' % (e_, e_, e_), lambda v: v < 1024 or v >= 2048)][c['shape']]
                ov = env.run(['name, %s into list' % e_], cwd=root)
                vals_ = {n: fnum(v) for n, v in (ov.rows(2) or [])}
                if ov.rc != 0 or len(vals_) != len(ents) or any(v is None for v in vals_.values()):
                    raise core.MachineryError('C15 where-twice reference failed %r' % ov.brief())
                want = sorted(n for n, v in vals_.items() if f(v))
                q = 'name where %s into list' % cond
                o = env.run([q], cwd=root)
                r['nt'] = 0 < len(want) < len(ents)
                r['trans'] = len(ents)
                if o.rc != 0 or o.err or sorted(o.rows()) != want:
                    r.update(status='viol', cls='where-operand-asked-twice', sig=('where-twice',), detail={'query': q, 'got': sorted(o.rows()), 'expected': want, 'err': o.brief()['err']})
                else:
                    r.update(status='ok', sig=('where-twice', cond))
                outs.append(r)
                continue
            if kind == 'where-signed':
                k, e_ = c['k'], c['e']
                cond, f = [('%s > -%d and %s < %d' % (e_, k, e_, k), lambda v: -k < v < k), ('%s between -%d and %d' % (e_, k, k), lambda v: -k <= v <= k),
                           ('%s < -%d or %s > %d' % (e_, k, e_, k), lambda v: v < -k or v > k), ('%s <= %d and %s >= -%d' % (e_, k, e_, k), lambda v: -k <= v <= k),
                           ('-%d < %s and %d > %s' % (k, e_, k, e_), lambda v: -k < v < k)][c['shape']]
                want = sorted(x['name'] for x in ents if f(pool_value(e_, x)))
                q = 'name where %s into list' % cond
                o = env.run([q], cwd=root)
                r['nt'] = True
                r['trans'] = len(ents)
                if o.rc != 0 or o.err or sorted(o.rows()) != want:
                    r.update(status='viol', cls='where-signed-pair', sig=('where-signed',), detail={'query': q, 'got': sorted(o.rows()), 'expected': want, 'err': o.brief()['err']})
                else:
                    r.update(status='ok', sig=('where-signed', cond))
                outs.append(r)
                continue
            if kind == 'under-filter':
                outs.append(under_filter(env, root, c, r, ents))
                continue
            try:
                if kind == 'value':
                    exp = {e['name']: evaluate(c['e'], e) for e in ents}
                elif kind == 'pair':
                    exp = {e['name']: [pool_value(x, e) for x in c['cols']] for e in ents}
                else:
                    vals = {e['name']: pool_value(c['e'], e) for e in ents}
            except ZeroDivisionError:
                continue
            if kind == 'value':
                q = 'name, %s into list' % c['text']
                o = env.run([q], cwd=root)
                rows = o.rows(2)
                r['nt'] = len({round(v, 9) for v in exp.values()}) > 1 or nops(c['e']) >= 1
                r['trans'] = nops(c['e']) + 1
                if o.timeout or o.rc != 0 or o.err or rows is None or len(rows) != len(ents):
                    r.update(status='viol', cls='value-status', detail=dict(o.brief(), query=q), sig=('err',))
                else:
                    bad = [(n, v, exp[n]) for n, v in rows if fnum(v) is None or not close(fnum(v), exp[n])]
                    if bad:
                        r.update(status='viol', cls='value:' + feature(c['e'], c['text']), sig=('value', feature(c['e'], c['text'])),
                                 detail={'query': q, 'row': bad[0][0], 'got': bad[0][1], 'expected': bad[0][2]})
                    else:
                        r.update(status='ok', sig=tuple(v for _, v in sorted(rows)))
            elif kind == 'pair':
                q = 'name, %s into list' % ', '.join(c['cols'])
                o = env.run([q], cwd=root)
                rows = o.rows(1 + len(c['cols']))
                r['nt'] = True
                r['trans'] = len(c['cols'])
                if o.timeout or o.rc != 0 or o.err or rows is None or len(rows) != len(ents):
                    r.update(status='viol', cls='pair-status', detail=dict(o.brief(), query=q), sig=('err',))
                else:
                    bad = None
                    for row in rows:
                        for i, v in enumerate(row[1:]):
                            if fnum(v) is None or not close(fnum(v), exp[row[0]][i]):
                                bad = (row[0], i, v, exp[row[0]][i])
                    if bad:
                        r.update(status='viol', cls='independence', sig=('indep',),
                                 detail={'query': q, 'row': bad[0], 'column': c['cols'][bad[1]], 'got': bad[2], 'alone': bad[3]})
                    else:
                        r.update(status='ok', sig=tuple(rows[0][1:]))
            else:
                # WHERE e OP n for n in {v-1, v, v+1} of two representative values
                vs = sorted(set(vals.values()))
                lits = sorted({x for v in (vs[0], vs[len(vs) // 2], vs[-1]) for x in (v - 1, v, v + 1)})
                ok, bad = True, None
                nruns = 0
                for n in lits:
                    if n != int(n) or n < 0:
                        continue
                    f = {'=': lambda a, b: a == b, '!=': lambda a, b: a != b, '>': lambda a, b: a > b, '>=': lambda a, b: a >= b,
                         '<': lambda a, b: a < b, '<=': lambda a, b: a <= b}[c['op']]
                    want = sorted(nm for nm, v in vals.items() if f(v, n))
                    q = 'name where %s %s %d into list' % (c['e'], c['op'], int(n))
                    o = env.run([q], cwd=root)
                    nruns += 1
                    if o.rc != 0 or o.err or sorted(o.rows()) != want:
                        bad = {'query': q, 'got': sorted(o.rows()), 'expected': want, 'err': o.brief()['err']}
                r['nt'] = True
                r['trans'] = max(1, nruns)
                if bad:
                    r.update(status='viol', cls='where-expression', detail=bad, sig=('where',))
                else:
                    r.update(status='ok', sig=('where', c['e'], c['op']))
            outs.append(r)
    finally:
        env.rmtree(root)
    return outs


def under_filter(env, root, c, r, ents):
    e = c['e']
    r['nt'] = True
    try:
        vals = {x['name']: pool_value(e, x) for x in ents}
    except ZeroDivisionError:
        r.update(status='ok', sig=('div0',))
        return r
    vs = sorted(vals.values())
    T = int(vs[len(vs) // 2])
    shapes = [("hardlinks > 1 or %s > %d" % (e, T), lambda x, v: x['nlink'] > 1 or v > T),
              ("name = 'bb' or name = 'k2' or %s < %d" % (e, T), lambda x, v: x['name'] in ('bb', 'k2') or v < T),
              ("%s >= %d or hardlinks > 1" % (e, T), lambda x, v: v >= T or x['nlink'] > 1),
              ("(name like 'h%%' and %s != %d) or name like '%%b'" % (e, T), lambda x, v: (x['name'].lower().startswith('h') and v != T) or x['name'].lower().endswith('b'))]
    w, pred = shapes[c['shape']]
    q = 'name, %s where %s into list' % (e, w)
    o = env.run([q], cwd=root, preload=True, env={'FSX_READDIR': c['rd']})
    rows = o.rows(2)
    r['trans'] = len(ents)
    want = {x['name']: vals[x['name']] for x in ents if pred(x, vals[x['name']])}
    if o.timeout or o.rc != 0 or o.err or rows is None:
        r.update(status='viol', cls='under-filter-status', detail=dict(o.brief(), query=q), sig=('err',))
    elif sorted(n for n, _ in rows) != sorted(want):
        r.update(status='viol', cls='where-expression', sig=('uf-rows',), detail={'query': q, 'got': sorted(n for n, _ in rows), 'expected': sorted(want)})
    else:
        bad = [(n, v, want[n]) for n, v in rows if fnum(v) is None or not close(fnum(v), want[n])]
        if bad:
            r.update(status='viol', cls='value-depends-on-filter', sig=('uf-value',),
                     detail={'query': q, 'row': bad[0][0], 'got': bad[0][1], 'expected': bad[0][2], 'readdir': c['rd']})
        else:
            r.update(status='ok', sig=tuple(sorted(want)))
    return r


_ALONE = {}


def company(env, root, c, r, n):
    r['nt'] = True
    r['trans'] = len(c['cols'])
    alone = {}
    for e in c['cols']:
        o = env.run(['name, %s into list' % e], cwd=root)
        rows = o.rows(2)
        if o.timeout or o.rc != 0 or o.err or rows is None or len(rows) != n:
            r.update(status='viol', cls='company-status', detail=dict(o.brief(), query=e), sig=('err',))
            return r
        alone[e] = dict(rows)
        if e.startswith("'") and e.endswith("'") and any(v != e[1:-1] for v in alone[e].values()):
            r.update(status='viol', cls='literal-column-value', sig=('lit',),
                     detail={'query': 'name, %s into list' % e, 'got': sorted(set(alone[e].values()))[:3], 'expected': e[1:-1]})
            return r
    q = 'name, %s into list' % ', '.join(c['cols'])
    o = env.run([q], cwd=root)
    rows = o.rows(1 + len(c['cols']))
    if o.timeout or o.rc != 0 or o.err or rows is None or len(rows) != n:
        r.update(status='viol', cls='company-status', detail=dict(o.brief(), query=q), sig=('err',))
        return r
    for row in rows:
        for i, e in enumerate(c['cols']):
            if row[1 + i] != alone[e].get(row[0]):
                r.update(status='viol', cls='independence-text', sig=('indep-text',),
                         detail={'query': q, 'row': row[0], 'column': e, 'got': row[1 + i], 'alone': alone[e].get(row[0])})
                return r
    r.update(status='ok', sig=tuple(rows[0][1:]))
    return r


def feature(e, text):
    toks = []

    def rec(n):
        if isinstance(n, str):
            if n.startswith('-'):
                toks.append('unary-minus-' + ('column' if not n[1:].isdigit() else 'number'))
        else:
            rec(n[1])
            rec(n[2])
    rec(e)
    if toks:
        return sorted(set(toks))[0]
    if any(w in text for w in ('plus', 'minus', 'mul', 'div', 'mod')):
        return 'word-operator'
    if '(' in text or '{' in text:
        return 'brackets'
    return 'precedence-associativity'
