"""C16 Every documented scalar function computes its documented value for any argument."""
import itertools
import base64
import datetime as dt
import math
import os
import re

from fsx import core
from fsx.core import D, F

ID = 'C16'
LEVEL = 'exploration'
RULE = ('each documented scalar function x its argument grid: string pool {ASCII, mixed case, multi-byte, combining marks, '
        'whitespace runs, only whitespace} as quoted literals AND as file names (column values), SUBSTR positions '
        '-(n+2)..n+2 x lengths {omitted, 0..n+2}, REPLACE needles {single, overlapping, absent, whole, empty via a column}, '
        'CONCAT/CONCAT_WS/COALESCE with 1..4 arguments incl. empty ones, BASE64 round trip, numeric functions on '
        '{0,1,-1,2,10,255,2^63-1,0.5,non-numeric}, date functions on month/year ends and 29 Feb and on the modified column; '
        'every composition F(G(name)) and F(G(H(name))) of 11 string functions (121 pairs, 1331 triples); two calls of one function in one query; wrong-kind arguments must '
        'give an empty value or status 2, never a crash; one function call per query'
        '; dates followed by digits that are no time of day; SUBSTR lengths of 2^64 and more')
ASSUMPTIONS = ['models are written from docs/usage.md; floats compared at 1e-12 relative; NaN equals NaN',
               'INITCAP is compared modulo whitespace normalisation (the doc does not say whether runs are kept)',
               'BIN/HEX/OCT of a negative integer = 64-bit two\'s complement (as in MySQL)',
               'FORMAT_TIME output is parsed as a sum of d/h/m/s parts and compared with the number of seconds',
               'SUBSTR position 0 is not generated (undocumented)']
BUDGET = {'quick': 50, 'thorough': 600}

STRS = ['naïve café', 'ǅemal', 'ÀÉÎÕÜ', 'a\u0301b', 'straße', '𝄞clef', 'tab\tin', 'Z', 'zz top', 'UPPER lower Mixed', '0', '-1', 'hello', 'Hello World', 'MICHAEL SMITH', 'mIxEd cAsE', 'a', 'ab', 'aaa', 'héllo wörld', '中文字', 'éa', 'ΑΒΓ αβγ',
        'a  b', '  lead', 'trail  ', '  both  ', ' ', 'x\ty', 'tab\t', 'a.b-c_d', '12345', 'AbC123', 'ß', 'aaaa', 'abcabc', 'ΩΣ', 'ΕΣ ΑΣ ΣΑΣ', 'ΟΔΟΣ aΣ']


def bounds(tier):
    return {'strings': len(STRS), 'string_functions': len(SFUNCS), 'compositions': len(COMPOSE) ** 2,
            'substr_string_length_max': 7 if tier == 'quick' else 12}


def q(s):
    return "'" + s + "'" if "'" not in s else '"' + s + '"'


def initcap(s):
    # the rest of a word is lower-cased as part of the word (a final sigma depends on what precedes it)
    return ' '.join(w[:1].upper() + w.lower()[len(w[:1].lower()):] for w in s.split())


def b64(s):
    return base64.b64encode(s.encode()).decode()


def substr(s, pos, ln=None):
    n = len(s)
    start = pos - 1 if pos > 0 else n + pos
    if start < 0 or start > n:
        return ''
    rest = s[start:]
    return rest if ln is None else rest[:ln]


SFUNCS = {
    'lower': lambda s: s.lower(), 'upper': lambda s: s.upper(), 'length': lambda s: str(len(s)),
    'trim': lambda s: s.strip(' \t'), 'ltrim': lambda s: s.lstrip(' \t'), 'rtrim': lambda s: s.rstrip(' \t'),
    'to_base64': b64, 'initcap': initcap,
}
ALIAS = {'lower': ['lowercase', 'lcase'], 'upper': ['uppercase', 'ucase'], 'length': ['len'], 'to_base64': ['base64'],
         'substr': ['substring'], 'power': ['pow'], 'format_time': ['pretty_time'], 'dow': ['dayofweek']}
COMPOSE = {
    'lower': lambda s: s.lower(), 'upper': lambda s: s.upper(), 'trim': lambda s: s.strip(' \t'),
    'ltrim': lambda s: s.lstrip(' \t'), 'rtrim': lambda s: s.rstrip(' \t'), 'to_base64': b64,
    'substr(%s, 2)': lambda s: substr(s, 2), 'substr(%s, -2, 1)': lambda s: substr(s, -2, 1),
    "replace(%s, 'a', 'XY')": lambda s: s.replace('a', 'XY'), "concat(%s, '!')": lambda s: s + '!',
    'from_base64(to_base64(%s))': lambda s: s,
}


def app(f, inner):
    return (f % inner) if '%s' in f else '%s(%s)' % (f, inner)


# (outer expression, the aggregate expression inside it, outer value from the inner value)
AGG_NESTED = [("concat('largest: ', hex(max(size)))", 'hex(max(size))', lambda v: 'largest: ' + v), ("concat(hex(max(size)), ' is largest')", 'hex(max(size))', lambda v: v + ' is largest'),
              ("concat('n=', abs(count(*)))", 'abs(count(*))', lambda v: 'n=' + v), ("concat('n=', count(*) + 1)", 'count(*) + 1', lambda v: 'n=' + v),
              ("concat_ws('-', 'a', 'b', upper(hex(min(size))))", 'upper(hex(min(size)))', lambda v: 'a-b-' + v), ("coalesce('', abs(count(*)))", 'abs(count(*))', lambda v: v),
              ("least(100000, abs(count(*)))", 'abs(count(*))', lambda v: v), ("greatest(0, abs(min(size)))", 'abs(min(size))', lambda v: v),
              ("concat('x', concat('y', concat('z', sum(size))))", 'sum(size)', lambda v: 'xyz' + v), ("replace('a-b', 'b', hex(max(size)))", 'hex(max(size))', lambda v: 'a-' + v),
              ("substr('abcdefghijklmnopqrstuvwxyz', 1, abs(count(*)))", 'abs(count(*))', lambda v: 'abcdefghijklmnopqrstuvwxyz'[:int(float(v))]),
              ("concat('m:', lower(upper(hex(max(size) - min(size)))))", 'lower(upper(hex(max(size) - min(size))))', lambda v: 'm:' + v)]


# (call, model of its value from the name, a literal no name yields)
UNDER_OR = [('upper(name)', lambda n: n.upper(), "'ZZZ'"), ('length(name)', lambda n: str(len(n)), '99'), ("concat(name, '!')", lambda n: n + '!', "'zzz!'"),
            ('substr(name, 1, 2)', lambda n: n[:2], "'zz'"), ('lower(name)', lambda n: n.lower(), "'zzz'"), ("replace(name, 'a', 'A')", lambda n: n.replace('a', 'A'), "'zzz'")]


def gen(tier):
    # ---- string functions on literals, one call per query
    for fn, model in SFUNCS.items():
        for s in STRS:
            if s.strip(' \t') == '' and fn != 'length':
                pass
            yield {'k': 'lit', 'expr': '%s(%s)' % (fn, q(s)), 'exp': model(s), 'cmp': 'ws' if fn == 'initcap' else 'eq', 'fn': fn}
        for al in ALIAS.get(fn, []):
            yield {'k': 'lit', 'expr': '%s(%s)' % (al.upper(), q('Hello World')), 'exp': model('Hello World'), 'cmp': 'eq', 'fn': fn}
    for s in STRS:
        yield {'k': 'lit', 'expr': 'from_base64(%s)' % q(b64(s)), 'exp': s, 'cmp': 'eq', 'fn': 'from_base64'}
        yield {'k': 'lit', 'expr': 'from_base64(to_base64(%s))' % q(s), 'exp': s, 'cmp': 'eq', 'fn': 'base64-roundtrip'}
    # ---- SUBSTR grid
    for s in tuple(x for x in STRS if "'" not in x and len(x) <= (7 if tier == 'quick' else 12)):
        n = len(s)
        for pos in range(-(n + 2), n + 3):
            if pos == 0:
                continue
            yield {'k': 'lit', 'expr': 'substr(%s, %d)' % (q(s), pos), 'exp': substr(s, pos), 'cmp': 'eq', 'fn': 'substr'}
            for ln in range(0, n + 3):
                yield {'k': 'lit', 'expr': 'substr(%s, %d, %d)' % (q(s), pos, ln), 'exp': substr(s, pos, ln), 'cmp': 'eq',
                       'fn': 'substr-len0' if ln == 0 else 'substr'}
    # ---- REPLACE
    for s, a, b in (('banana', 'a', 'o'), ('aaa', 'aa', 'X'), ('hello', 'z', 'y'), ('hello', 'hello', ''), ('a.b.c', '.', '::'),
                    ('héllo', 'é', 'e'), ('abcabc', 'bc', 'x'), ('x+y', '+', ' plus '), ('aaaa', 'a', 'aa')):
        if b == '':
            continue
        yield {'k': 'lit', 'expr': 'replace(%s, %s, %s)' % (q(s), q(a), q(b)), 'exp': s.replace(a, b), 'cmp': 'eq', 'fn': 'replace'}
    # ---- CONCAT / CONCAT_WS / COALESCE
    parts = ['ab', 'c d', 'é', '12']
    for n in range(1, 5):
        args = parts[:n]
        yield {'k': 'lit', 'expr': 'concat(%s)' % ', '.join(map(q, args)), 'exp': ''.join(args), 'cmp': 'eq', 'fn': 'concat'}
        yield {'k': 'lit', 'expr': 'coalesce(%s)' % ', '.join(map(q, args)), 'exp': args[0], 'cmp': 'eq', 'fn': 'coalesce'}
        for sep in ('-', ', ', 'x'):
            yield {'k': 'lit', 'expr': 'concat_ws(%s, %s)' % (q(sep), ', '.join(map(q, args))), 'exp': sep.join(args),
                   'cmp': 'eq', 'fn': 'concat_ws'}
    # ---- numeric
    nums = ['0', '1', '-1', '2', '10', '255', '9223372036854775807', '0.5', '100', '1000', '-5', '16', '27']
    for x in nums:
        v = float(x)
        isint = re.fullmatch(r'-?\d+', x) is not None
        iv = int(x) if isint else None
        for fn, base in (('bin', 'b'), ('hex', 'x'), ('oct', 'o')):
            exp = format(iv & (2 ** 64 - 1), base) if isint else ''
            yield {'k': 'lit', 'expr': '%s(%s)' % (fn, x), 'exp': exp, 'cmp': 'eq', 'fn': fn}
        yield {'k': 'lit', 'expr': 'abs(%s)' % x, 'exp': abs(v), 'cmp': 'num', 'fn': 'abs'}
        yield {'k': 'lit', 'expr': 'sqrt(%s)' % x, 'exp': math.sqrt(v) if v >= 0 else float('nan'), 'cmp': 'num', 'fn': 'sqrt'}
        yield {'k': 'lit', 'expr': 'exp(%s)' % x, 'exp': (math.exp(v) if v < 700 else float('inf')), 'cmp': 'num', 'fn': 'exp'}
        if v > 0:
            yield {'k': 'lit', 'expr': 'ln(%s)' % x, 'exp': math.log(v), 'cmp': 'num', 'fn': 'ln'}
            yield {'k': 'lit', 'expr': 'log(%s)' % x, 'exp': math.log10(v), 'cmp': 'num', 'fn': 'log'}
        for p in ('0', '1', '2', '3', '0.5', '-1'):
            if abs(v) > 1e6:
                continue
            try:
                e = math.pow(v, float(p))
            except (ValueError, ZeroDivisionError):
                continue
            yield {'k': 'lit', 'expr': 'power(%s, %s)' % (x, p), 'exp': e, 'cmp': 'num', 'fn': 'power'}
    yield {'k': 'lit', 'expr': 'pow(2, 10)', 'exp': 1024.0, 'cmp': 'num', 'fn': 'power'}
    for args in (['1', '2', '3'], ['3', '2', '1'], ['2', '-7', '5'], ['4'], ['1.5', '1.25'], ['10', '9', '100', '11']):
        fl = [float(a) for a in args]
        yield {'k': 'lit', 'expr': 'least(%s)' % ', '.join(args), 'exp': min(fl), 'cmp': 'num', 'fn': 'least'}
        yield {'k': 'lit', 'expr': 'greatest(%s)' % ', '.join(args), 'exp': max(fl), 'cmp': 'num', 'fn': 'greatest'}
    for secs in (0, 1, 59, 60, 61, 146, 3599, 3600, 3661, 86399, 86400, 90061, 1000000):
        yield {'k': 'lit', 'expr': 'format_time(%d)' % secs, 'exp': secs, 'cmp': 'time', 'fn': 'format_time'}
    # ---- dates
    for d in ('2021-03-04', '2020-02-29', '2020-12-31', '2021-01-01', '2021-04-30', '2019-07-09 08:05:03', '2022-10-02', '2023-01-07'):
        t = dt.datetime.strptime(d[:10], '%Y-%m-%d')
        yield {'k': 'lit', 'expr': 'year(%s)' % q(d), 'exp': float(t.year), 'cmp': 'num', 'fn': 'year'}
        yield {'k': 'lit', 'expr': 'month(%s)' % q(d), 'exp': float(t.month), 'cmp': 'num', 'fn': 'month'}
        yield {'k': 'lit', 'expr': 'day(%s)' % q(d), 'exp': float(t.day), 'cmp': 'num', 'fn': 'day'}
        yield {'k': 'lit', 'expr': 'dow(%s)' % q(d), 'exp': float((t.weekday() + 1) % 7 + 1), 'cmp': 'num', 'fn': 'dow'}
    # ---- date functions must not remember an earlier argument: same first word, different dates - in one query and across rows
    for a, b in (("'shot 2023-10-01.png'", "'shot 2024-02-29.png'"), ("'2021-03-04 note'", "'2021-03-05 note'"), ("'x 2020-12-31'", "'x 2021-01-01'")):
        for fn in ('year', 'month', 'day', 'dow'):
            yield {'k': 'pair', 'a': '%s(%s)' % (fn, a), 'b': '%s(%s)' % (fn, b), 'fn': 'two-dates-one-prefix'}
    # ... and an impossible date next to the valid date it would "normalise" to is still no date
    for v, i in (('2024-02-01', '2024-01-32'), ('2025-01-01', '2024-13-01'), ('2025-01-01', '2024-12-32'), ('2024-12-31', '2025-00-31'),
                 ('2024-03-01', '2024-02-30'), ('2024-05-01', '2024-04-31'), ('2023-03-01', '2023-02-29'), ('2024-01-31', '2024-02-00'),
                 ('2024-02-01 00:00:00', '2024-01-31 24:00:00'), ('2024-01-01 01:00:00', '2024-01-01 00:60:00')):
        for fn in ('year', 'month', 'day', 'dow'):
            yield {'k': 'pair', 'a': "%s('%s')" % (fn, v), 'b': "%s('%s')" % (fn, i), 'fn': 'valid-then-impossible-date'}
            yield {'k': 'pair', 'a': "%s('%s')" % (fn, i), 'b': "%s('%s')" % (fn, v), 'fn': 'valid-then-impossible-date'}
            yield {'k': 'lit', 'expr': "%s('%s')" % (fn, i), 'exp': '', 'cmp': 'eq', 'fn': 'impossible-date'}
    # digits that merely follow a complete date are no time of day (a name like `2024-02-29 1080p.mkv`)
    for d, tail in (('2024-02-29', ' 1080p.mkv'), ('2024-02-29', ' 99 Luftballons.mp3'), ('2024-12-31', ' 1080p'), ('2024-12-31', ' 60 fps'), ('2021-03-04', ' 3 cats.jpg'),
                    ('2021-03-04', '_2500x1200.png'), ('2020-02-29', ' 7777'), ('2023-01-07', ' 25 pages'), ('2022-10-02', ' v2.61'), ('2021-04-30', ' 12 angry men')):
        t = dt.datetime.strptime(d, '%Y-%m-%d')
        for fn, exp in (('year', t.year), ('month', t.month), ('day', t.day), ('dow', (t.weekday() + 1) % 7 + 1)):
            yield {'k': 'lit', 'expr': "%s('%s%s')" % (fn, d, tail), 'exp': float(exp), 'cmp': 'num', 'fn': 'date-then-digits'}
            yield {'k': 'lit', 'expr': "%s('shot %s%s')" % (fn, d, tail), 'exp': float(exp), 'cmp': 'num', 'fn': 'date-then-digits'}
    # a length beyond the machine word is still a length (the rest of the string)
    for ln in ('18446744073709551615', '18446744073709551616', '99999999999999999999', '340282366920938463463374607431768211456'):
        for s, pos in (('abcdef', 2), ('abcdef', -3), ('abcdef', 1), ('é中x', 2)):
            yield {'k': 'lit', 'expr': 'substr(%s, %d, %s)' % (q(s), pos, ln), 'exp': substr(s, pos), 'cmp': 'eq', 'fn': 'substr-huge-length'}
    # a bare number is no date
    for e in ("year(12345)", "year('12345')", "year('10.75')", "month(123456)", "day('2024')"):
        yield {'k': 'lit', 'expr': e, 'exp': '', 'cmp': 'eq', 'fn': 'number-is-no-date'}
    # F(G(entry)): a function applied to what another function reads from the entry is that entry's value, row after row
    for oi in range(len(ENTRY_OUTER)):
        for inner in ENTRY_INNER:
            yield {'k': 'entryfn', 'outer': oi, 'inner': inner, 'fn': 'function-of-entry-reading-function'}
    # F(constant, G(aggregate)): a function applied to an aggregate that stands deeper inside one of its arguments gives one row, F of the aggregate's value
    for i in range(len(AGG_NESTED)):
        yield {'k': 'aggfn', 'i': i, 'fn': 'function-of-nested-aggregate'}
    # the value of a call in the select list is that of its own row, whatever the WHERE clause computed for the rows rejected before it
    for i in range(len(UNDER_OR)):
        for rd in ('sorted', 'rev'):
            yield {'k': 'under-or', 'i': i, 'rd': rd, 'fn': 'call-value-after-rejected-rows'}
    # the date functions on a modified column whose year has more than four digits or a sign (tmpfs only)
    yield {'k': 'faryears', 'expr': 'year(modified)', 'fn': 'date-part-of-far-year'}
    yield {'k': 'daterows', 'expr': 'year(name)', 'fn': 'date-rows'}
    yield {'k': 'daterows', 'expr': 'month(name)', 'fn': 'date-rows'}
    yield {'k': 'daterows', 'expr': 'day(name)', 'fn': 'date-rows'}
    # ---- wall-clock times that exist twice or not at all in a DST zone are still dates
    for tz in ('Europe/Berlin', 'America/New_York', 'Australia/Lord_Howe', 'UTC'):
        for d in ('2024-03-31 02:30:00', '2023-10-29 02:30:00', '2021-03-14 02:30:00', '2021-11-07 01:30:00', '2021-06-15 12:00:00'):
            t = dt.datetime.strptime(d[:10], '%Y-%m-%d')
            yield {'k': 'lit', 'expr': 'year(%s)' % q(d), 'exp': float(t.year), 'cmp': 'num', 'fn': 'year-dst', 'tz': tz}
            yield {'k': 'lit', 'expr': 'day(%s)' % q(d), 'exp': float(t.day), 'cmp': 'num', 'fn': 'day-dst', 'tz': tz}
            yield {'k': 'lit', 'expr': 'dow(%s)' % q(d), 'exp': float((t.weekday() + 1) % 7 + 1), 'cmp': 'num', 'fn': 'dow-dst', 'tz': tz}
    # ---- backslashes are ordinary characters in every quoting style
    for sv in ('C:\\', 'a\\b', '\\\\srv\\share', 'x\\', 'tab\\t', '\\'):
        for qq in ("'", '"', '`'):
            lit = qq + sv + qq
            yield {'k': 'lit', 'expr': 'length(%s)' % lit, 'exp': str(len(sv)), 'cmp': 'eq', 'fn': 'backslash-literal'}
            yield {'k': 'lit', 'expr': 'upper(%s)' % lit, 'exp': sv.upper(), 'cmp': 'eq', 'fn': 'backslash-literal'}
            yield {'k': 'lit', 'expr': "concat(%s, 'z')" % lit, 'exp': sv + 'z', 'cmp': 'eq', 'fn': 'backslash-literal'}
    # ---- the same functions on column values (rows = strings of the pool as file names)
    for fn in SFUNCS:
        yield {'k': 'col', 'expr': '%s(name)' % fn, 'fn': fn, 'cmp': 'ws' if fn == 'initcap' else 'eq'}
    yield {'k': 'col', 'expr': 'substr(name, 2)', 'fn': 'substr(%s, 2)', 'cmp': 'eq'}
    yield {'k': 'col', 'expr': 'substr(name, -2, 1)', 'fn': 'substr(%s, -2, 1)', 'cmp': 'eq'}
    yield {'k': 'col', 'expr': "replace(name, 'a', 'XY')", 'fn': "replace(%s, 'a', 'XY')", 'cmp': 'eq'}
    yield {'k': 'col', 'expr': "replace(name, ext, 'Q')", 'fn': 'replace-empty-needle', 'cmp': 'eq'}
    yield {'k': 'col', 'expr': "concat(name, '!', ext, name)", 'fn': 'concat-empty', 'cmp': 'eq'}
    yield {'k': 'col', 'expr': "concat_ws('-', name, ext, name)", 'fn': 'concat_ws-empty', 'cmp': 'eq'}
    yield {'k': 'col', 'expr': "coalesce(ext, name)", 'fn': 'coalesce-empty-first', 'cmp': 'eq'}
    yield {'k': 'col', 'expr': "coalesce(ext, ext, 'zz')", 'fn': 'coalesce-empty-two', 'cmp': 'eq'}
    for fn in ('hex', 'bin', 'oct', 'abs', 'sqrt', 'year', 'month', 'day', 'dow'):
        yield {'k': 'meta', 'expr': '%s(%s)' % (fn, 'modified' if fn in ('year', 'month', 'day', 'dow') else 'size'), 'fn': fn}
    # ---- two calls of the same function in one query that differ only in a later argument or in a sign
    for a, b in (('substr(name, 3)', 'substr(name, -3)'), ('substr(name, 2, 1)', 'substr(name, 2, 2)'), ('substr(name, 2)', 'substr(name, 2, 1)'),
                 ("replace(name, 'a', 'b')", "replace(name, 'a', 'c')"), ("replace(name, 'a', 'X')", "replace(name, 'e', 'X')"),
                 ("concat(name, 'x')", "concat(name, 'y')"), ("concat_ws('-', name, 'x')", "concat_ws('+', name, 'x')"),
                 ('power(2, -1)', 'power(2, 1)'), ('power(size, 2)', 'power(size, 3)'), ('least(size, 5)', 'least(size, -5)'),
                 ('greatest(size, 5)', 'greatest(size, 50)'), ("coalesce(ext, 'a')", "coalesce(ext, 'b')"), ('abs(-3)', 'abs(3)'),
                 ('log(8, 2)', 'log(8, 10)'), ('format_size(size, \'%.0\')', 'format_size(size, \'%.2\')'), ('substr(name, -1)', 'substr(name, 1)')):
        yield {'k': 'pair', 'a': a, 'b': b, 'fn': 'two-calls-in-one-query'}
        yield {'k': 'pair', 'a': b, 'b': a, 'fn': 'two-calls-in-one-query'}
    # ---- two calls whose argument values spell the same text when written one after the other, divided differently between the arguments
    for sep in (', ', ',', ' ', '|', ';', '\x1f', '\t', '","', "' '"):
        if "'" in sep:
            q1, q2 = '"a%sb"' % sep, '"b%sc"' % sep
            pa = [('concat(%s, "c")' % q1, 'concat("a", %s)' % q2)]
        else:
            pa = [("concat('a%sb', 'c')" % sep, "concat('a', 'b%sc')" % sep), ("concat_ws('-', 'a%sb', 'c')" % sep, "concat_ws('-', 'a', 'b%sc')" % sep),
                  ("coalesce('a', '')", "coalesce('a%s')" % sep), ("upper(concat('x%sy', name))" % sep, "upper(concat('x', 'y%s', name))" % sep),
                  ("replace('a%sb', 'b', 'c')" % sep, "replace('a', 'b%sb', 'c')" % sep), ("concat(name, '%sx', 'y')" % sep, "concat(name, '', 'x%sy')" % sep)]
        for a, b in pa:
            yield {'k': 'pair', 'a': a, 'b': b, 'fn': 'argument-boundaries'}
            yield {'k': 'pair', 'a': b, 'b': a, 'fn': 'argument-boundaries'}
    # ---- three calls in one query, some of them negated: each column is still what it is alone
    trio = ['length(name)', 'length(path)', 'length(ext)', 'abs(size)', 'power(size, 2)']
    for a, b, c_ in itertools.permutations(trio, 3):
        for signs in (('-', '-', ''), ('-', '', '-'), ('', '-', '-'), ('-', '-', '-')):
            cols = [sg + e for sg, e in zip(signs, (a, b, c_))]
            # the un-negated twin of the first call last (the value most likely to be remembered wrongly)
            yield {'k': 'multi', 'cols': cols + [a], 'fn': 'negated-calls-in-one-query'}
    # ---- compositions
    for f in COMPOSE:
        for g in COMPOSE:
            yield {'k': 'comp', 'expr': app(f, app(g, 'name')), 'f': f, 'g': g, 'fn': 'compose'}
    if True:
        keys = list(COMPOSE)
        for f in keys:
            for g in keys:
                for h in keys:
                    yield {'k': 'comp3', 'expr': app(f, app(g, app(h, 'name'))), 'f': f, 'g': g, 'h': h, 'fn': 'compose3'}
    # a call next to its own negation, in both orders (the value of the call is not the negation negated back)
    for call in ('lower(name)', 'substr(name, 1, 4)', 'upper(name)', 'hex(size)', 'concat(name)', 'trim(name)', 'year(name)', 'substr(name, 1, 3)'):
        yield {'k': 'pair', 'a': '-' + call, 'b': call, 'fn': 'call-beside-its-negation'}
        yield {'k': 'pair', 'a': call, 'b': '-' + call, 'fn': 'call-beside-its-negation'}
    # ---- wrong-kind arguments: empty value or status 2, never a crash
    for e in ("substr(name, x)", "substr(name, 1, y)", "substr('abc', 1.5)", "power(2, x)", "power(x, 2)", "log(8, b)", "log(x)",
              "format_time(abc)", "format_time(-5)", "format_time(1.5)", "hex(abc)", "bin(1.5)", "oct(name)", "abs(name)",
              "sqrt(name)", "exp(name)", "ln(name)", "year(name)", "month(12345)", "day('not a date')", "dow(size)",
              "least(a, b)", "greatest(name, 1)", "from_base64('!!!')", "replace(name, a)", "replace(name)", "substr(name)",
              "concat_ws(name)", "length(size)", "upper(size)", "power(2)", "format_size(name)", "format_size(-1)",
              "substr(name, 99999999999)", "substr(name, 1, -1)", "year(2021-02-30)", "day('2021-13-01')", "format_time(99999999999999999999)",
              "year('10.75')", "month(43 / 4)", "day('25:00')", "dow('12:00 pm')", "year('2147483647 years')", "year('999999999 weeks')",
              "year('2147483647 days')", "year('300000 years ago')", "year('12:99')", "month('٢٠٢٣-١٢-١١')", "day(99999)", "year(1234567)"):
        yield {'k': 'bad', 'expr': e, 'fn': 'wrong-kind:' + e.split('(')[0]}


def groups(tier, seed):
    chunk = []
    for c in gen(tier):
        chunk.append(c)
        if len(chunk) >= 80:
            yield {'cases': chunk}
            chunk = []
    if chunk:
        yield {'cases': chunk}


def single(case):
    return {'cases': [case]}


def fnum(s):
    try:
        return float(s)
    except ValueError:
        return None


def num_ok(got, exp):
    g = fnum(got)
    if g is None:
        return False
    if math.isnan(exp):
        return math.isnan(g)
    if math.isinf(exp):
        return g == exp
    return abs(g - exp) <= 1e-12 * max(1.0, abs(exp))


def time_total(s):
    if s in ('0μs', '0s', '0'):
        return 0
    tot = 0
    for part in re.split(r'[ ,]+', s.strip()):
        m = re.fullmatch(r'(\d+)(d|h|min|m|s)', part)
        if not m:
            return None
        tot += int(m.group(1)) * {'d': 86400, 'h': 3600, 'min': 60, 'm': 60, 's': 1}[m.group(2)]
    return tot


def ws(s):
    return ' '.join(s.split())


T0 = 1614834367
FILES = {}
for i, s_ in enumerate(STRS):
    FILES[s_] = F(i * 37 % 300, mtime=T0 + i * 86400 * 40)
FILES['noext'] = F(255, mtime=1583020799)
FILES['007'] = F(8, mtime=T0 + 86400 * 7)
FILES['0042-notes.txt'] = F(9, mtime=T0 + 86400 * 8)
FILES['1e3'] = F(10, mtime=T0 + 86400 * 9)
FILES['has needle'] = F(11, data='a needle b\n', xattr={'user.k': b'Val One'}, mtime=T0 + 5)
FILES['no_needle'] = F(4, data='xyz\n', mtime=T0 + 86400 * 3)
FILES['other k'] = F(6, data='needle', xattr={'user.k': b'second'}, mtime=T0 + 86400 * 400)
ENTRY_OUTER = [('upper(%s)', lambda v: v.upper()), ('length(%s)', lambda v: str(len(v))), ("concat(%s, 'x')", lambda v: v + 'x'), ("coalesce(%s, '-')", lambda v: v or '-'),
               ('lower(upper(%s))', lambda v: v.lower()), ('substr(%s, 2)', lambda v: v[1:]), ("replace(%s, 'e', 'E')", lambda v: v.replace('e', 'E')), ('initcap(%s)', None)]
ENTRY_INNER = ["contains('needle')", "xattr('user.k')", "has_xattr('user.k')", "contains('xyz')"]


def eval_group(env, group, tier):
    root = env.newdir('c16')
    core.materialise(root, FILES)
    outs = []
    try:
        for c in group['cases']:
            k = c['k']
            r = {'case': c, 'layer': k, 'nt': True}

            def viol(cls, detail):
                r.update(status='viol', cls=cls, detail=detail, sig=('viol', cls))
            if k == 'lit':
                query = c['expr'] + ' into list'
                o = env.run([query], cwd=root, env={'TZ': c['tz']} if c.get('tz') else None)
                rows = o.rows()
                if o.timeout or o.rc != 0 or o.err or len(rows) > 1:
                    viol(c['fn'] + ':status', dict(o.brief(), query=query))
                else:
                    got = rows[0] if rows else ''
                    exp = c['exp']
                    ok = {'eq': lambda: got == exp, 'ws': lambda: ws(got) == ws(exp), 'num': lambda: num_ok(got, exp),
                          'time': lambda: time_total(got) == exp}[c['cmp']]()
                    if not ok:
                        viol(c['fn'], {'query': query, 'got': got, 'expected': str(exp)})
                    else:
                        r.update(status='ok', sig=got)
            elif k in ('col', 'comp', 'comp3', 'meta'):
                query = 'name, %s from . into list' % c['expr']
                o = env.run([query], cwd=root)
                rows = o.rows(2)
                if o.timeout or o.rc != 0 or o.err or rows is None or len(rows) != len(FILES):
                    viol(c['fn'] + ':status', dict(o.brief(), query=query))
                else:
                    bad = None
                    for name, got in rows:
                        ext = name.rsplit('.', 1)[1] if '.' in name[1:] else ''
                        if k == 'col':
                            fn = c['fn']
                            if fn in SFUNCS:
                                exp = SFUNCS[fn](name)
                            elif fn in COMPOSE:
                                exp = COMPOSE[fn](name)
                            else:
                                exp = {'replace-empty-needle': name.replace(ext, 'Q') if ext else None,
                                       'concat-empty': name + '!' + ext + name, 'concat_ws-empty': '-'.join([name, ext, name]),
                                       'coalesce-empty-first': ext or name, 'coalesce-empty-two': ext or 'zz'}[fn]
                            if exp is None:
                                continue
                            ok = ws(got) == ws(exp) if c['cmp'] == 'ws' else got == exp
                        elif k == 'meta':
                            node = FILES[name]
                            fn = c['fn']
                            if fn in ('hex', 'bin', 'oct'):
                                exp = format(node['size'], {'hex': 'x', 'bin': 'b', 'oct': 'o'}[fn])
                                ok = got == exp
                            elif fn in ('abs', 'sqrt'):
                                exp = float(node['size']) if fn == 'abs' else math.sqrt(node['size'])
                                ok = num_ok(got, exp)
                            else:
                                t = dt.datetime.utcfromtimestamp(node['mtime'])
                                exp = float({'year': t.year, 'month': t.month, 'day': t.day, 'dow': (t.weekday() + 1) % 7 + 1}[fn])
                                ok = num_ok(got, exp)
                        else:
                            exp = COMPOSE[c['g']](COMPOSE[c['h']](name)) if k == 'comp3' else COMPOSE[c['g']](name)
                            exp = COMPOSE[c['f']](exp)
                            ok = got == exp
                        if not ok:
                            bad = (name, got, exp)
                            break
                    if bad:
                        viol(c['fn'] + (':' + c['f'].split('(')[0] + '-of-' + c['g'].split('(')[0] if k == 'comp' else ''),
                             {'query': query, 'row': bad[0], 'got': bad[1], 'expected': str(bad[2])})
                    else:
                        r.update(status='ok', sig=tuple(v for _, v in sorted(rows))[:6])
            elif k == 'daterows':
                d2 = env.newdir('dr')
                try:
                    names = ['shot 2023-10-01.png', 'shot 2024-02-29.png', 'shot 2019-07-09.png', 'a 2020-12-31', 'a 2021-01-01', '2022-05-06 b', '2022-05-07 b']
                    core.materialise(d2, {n: F(1) for n in names})
                    query = 'name, %s from . into list' % c['expr']
                    o = env.run([query], cwd=d2)
                    rows = o.rows(2)
                    import re as _re
                    part = {'year(name)': 1, 'month(name)': 2, 'day(name)': 3}[c['expr']]
                    exp = {n: str(int(_re.search(r'(\d{4})-(\d{2})-(\d{2})', n).group(part))) for n in names}
                    if o.rc != 0 or not rows or dict(rows) != exp:
                        viol(c['fn'], {'query': query, 'got': dict(rows or []), 'expected': exp})
                    else:
                        r.update(status='ok', sig=tuple(sorted(exp.values())))
                finally:
                    env.rmtree(d2)
            elif k == 'multi':
                q2 = 'name, %s from . into list' % ', '.join(c['cols'])
                o = env.run([q2], cwd=root)
                rows_ = o.rows(1 + len(c['cols']))
                alone = {}
                for e_ in set(c['cols']):
                    alone[e_] = dict(env.run(['name, %s from . into list' % e_], cwd=root).rows(2) or [])
                if o.rc != 0 or not rows_:
                    viol(c['fn'] + ':status', dict(o.brief(), query=q2))
                else:
                    bad = [(row[0], e_, v_, alone[e_].get(row[0])) for row in rows_ for e_, v_ in zip(c['cols'], row[1:]) if v_ != alone[e_].get(row[0])]
                    if bad:
                        viol(c['fn'], {'query': q2, 'row': bad[0][0], 'column': bad[0][1], 'got': bad[0][2], 'alone': bad[0][3]})
                    else:
                        r.update(status='ok', sig=tuple(rows_[0][1:]))
            elif k == 'faryears':
                import subprocess
                import tempfile
                if not (os.path.isdir('/dev/shm') and os.access('/dev/shm', os.W_OK)):
                    r.update(status='ok', sig=('no-tmpfs',), nt=False)
                    outs.append(r)
                    continue
                shm = tempfile.mkdtemp(prefix='fsx-c16-', dir='/dev/shm')
                try:
                    stamps = {'y12025': 317309313600, 'y10000': 253402300800, 'y9999': 253402300799, 'bce1199': -100000000000, 'y2025': 1750000000, 'y0001': -62135596800 + 86400 * 40}
                    for n, ts in stamps.items():
                        open(os.path.join(shm, n), 'w').close()
                        os.utime(os.path.join(shm, n), (ts, ts))
                    if int(os.lstat(os.path.join(shm, 'y12025')).st_mtime) != 317309313600:
                        r.update(status='ok', sig=('no-far-stamps',), nt=False)
                    else:
                        def civil(z):       # days since 1970-01-01 -> (year, month, day), proleptic Gregorian
                            z += 719468
                            era = z // 146097
                            doe = z - era * 146097
                            yoe = (doe - doe // 1460 + doe // 36524 - doe // 146096) // 365
                            y = yoe + era * 400
                            doy = doe - (365 * yoe + yoe // 4 - yoe // 100)
                            mp = (5 * doy + 2) // 153
                            d = doy - (153 * mp + 2) // 5 + 1
                            m = mp + 3 if mp < 10 else mp - 9
                            return (y + 1 if m <= 2 else y), m, d
                        q2 = 'name, year(modified), month(modified), day(modified), dow(modified), modified from . into list'
                        o = env.run([q2], cwd=shm, env={'TZ': 'UTC'})
                        rows_ = o.rows(6) or []
                        bad = []
                        for row in rows_:
                            days = stamps[row[0]] // 86400
                            y, m, d = civil(days)
                            dow = (days + 4) % 7 + 1       # 1970-01-01 was a Thursday; Sunday = 1
                            want = [str(y), str(m), str(d), str(dow)]
                            if list(row[1:5]) != want:
                                bad.append((row, want))
                        if o.rc != 0 or o.err or len(rows_) != len(stamps) or bad:
                            viol(c['fn'], {'query': q2, 'row': bad[0][0] if bad else None, 'expected': bad[0][1] if bad else None, 'err': o.brief()['err']})
                        else:
                            r.update(status='ok', sig=('far', len(rows_)))
                finally:
                    subprocess.run(['rm', '-rf', shm])
            elif k == 'under-or':
                call, f, never = UNDER_OR[c['i']]
                d_ = env.newdir('c16o')
                try:
                    # small and large files in turn (in both arrival orders an accepted row follows a rejected one), two levels
                    core.materialise(d_, {'r1': D(dict(('%s%02d.txt' % ('abcdefgh'[j_ % 8] * (1 + j_ % 3), j_), F(1 if j_ % 2 else 9)) for j_ in range(12))),
                                          'r2': D({'Alpha.TXT': F(1), 'bravo.txt': F(9), 'sub': D({'charlie.c': F(1), 'Delta.c': F(9), 'echo': F(1), 'foxtrot.md': F(9)})})})
                    bad = None
                    for wh in ('size gt 5 or %s = %s' % (call, never), '(size gt 5 or %s = %s) and size ge 0' % (call, never), 'size gt 5 or not %s != %s' % (call, never),
                               'size gt 5 or size lt 0 or %s = %s' % (call, never)):
                        for tail in ('', ' order by %s' % call, ' order by name desc'):
                            for frm in ('r1, r2', 'r2 dfs, r1', '.'):
                                q2 = 'name, %s, length(%s) from %s where %s%s into list' % (call, call, frm, wh, tail)
                                o = env.run([q2], cwd=d_, preload=True, env={'FSX_READDIR': c['rd']})
                                rows_ = o.rows(3) or []
                                wrong = [list(row) for row in rows_ if row[1] != f(row[0]) or row[2] != str(len(f(row[0])))]
                                if o.rc != 0 or o.err or len(rows_) < 9 or wrong:
                                    bad = {'query': q2, 'rows': len(rows_), 'wrong': wrong[:3], 'err': o.brief()['err'], 'readdir': c['rd']}
                                    break
                            if bad:
                                break
                        if bad:
                            break
                    if bad:
                        viol(c['fn'], bad)
                    else:
                        r.update(status='ok', sig=(c['i'], c['rd']))
                finally:
                    env.rmtree(d_)
            elif k == 'aggfn':
                outer, inner, f = AGG_NESTED[c['i']]
                bad = None
                for frm in (' from .', ' from . where size ge 0', ''):
                    oi_ = env.run([inner + frm + ' into list'], cwd=root)
                    o = env.run([outer + frm + ' into list'], cwd=root)
                    o2 = env.run([outer + ', ' + inner + frm + ' into list'], cwd=root)
                    vi = oi_.rows()
                    if oi_.rc != 0 or len(vi) != 1:
                        raise core.MachineryError('C16 aggregate reference %r %r' % (inner, oi_.brief()))
                    want = f(vi[0])
                    if o.rc != 0 or o.err or o.rows() != [want]:
                        bad = {'query': outer + frm, 'got': o.rows()[:4], 'expected': [want], 'err': o.brief()['err']}
                    elif o2.rc != 0 or o2.rows(2) != [(want, vi[0])]:
                        bad = {'query': outer + ', ' + inner + frm, 'got': (o2.rows(2) or [])[:4], 'expected': [want, vi[0]]}
                    if bad:
                        break
                if bad:
                    viol(c['fn'], bad)
                else:
                    r.update(status='ok', sig=(c['i'],))
            elif k == 'entryfn':
                tmpl, f = ENTRY_OUTER[c['outer']]
                q2 = 'name, %s, %s from . into list' % (tmpl % c['inner'], c['inner'])
                o = env.run([q2], cwd=root)
                rows_ = o.rows(3)
                alone = dict(env.run(['name, %s from . into list' % (tmpl % c['inner'])], cwd=root).rows(2) or [])
                if o.rc != 0 or o.err or not rows_:
                    viol(c['fn'] + ':status', dict(o.brief(), query=q2))
                else:
                    bad = [row for row in rows_ if (f is not None and row[1] != f(row[2])) or alone.get(row[0]) != row[1]]
                    if bad or len({row[2] for row in rows_}) < 2:
                        viol(c['fn'], {'query': q2, 'row': bad[0] if bad else None, 'expected': f(bad[0][2]) if bad and f else None, 'alone': alone.get(bad[0][0]) if bad else None})
                    else:
                        r.update(status='ok', sig=tuple(sorted(set(row[1] for row in rows_))))
            elif k == 'pair':
                # differential: the value of each call next to the other equals its value alone
                q2 = 'name, %s, %s from . into list' % (c['a'], c['b'])
                o = env.run([q2], cwd=root)
                oa = env.run(['name, %s from . into list' % c['a']], cwd=root)
                ob = env.run(['name, %s from . into list' % c['b']], cwd=root)
                r2, ra, rb = o.rows(3), oa.rows(2), ob.rows(2)
                if o.rc != 0 or oa.rc != 0 or ob.rc != 0 or not r2 or not ra or not rb:
                    viol(c['fn'] + ':status', dict(o.brief(), query=q2))
                else:
                    da, db = dict(ra), dict(rb)
                    bad = [(n, x, y, da[n], db[n]) for n, x, y in r2 if x != da[n] or y != db[n]]
                    if bad:
                        viol(c['fn'], {'query': q2, 'row': bad[0][0], 'got': list(bad[0][1:3]), 'alone': list(bad[0][3:5])})
                    else:
                        r.update(status='ok', sig=tuple(r2[0][1:]))
            else:
                query = 'name, %s from . into list' % c['expr']
                o = env.run([query], cwd=root)
                if o.timeout or o.panicked or o.rc not in (0, 1, 2) or (o.rc == 2 and not o.err):
                    viol(c['fn'], dict(o.brief(), query=query))
                else:
                    r.update(status='ok', sig=(o.rc,))
            outs.append(r)
    finally:
        env.rmtree(root)
    return outs
