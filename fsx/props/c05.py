"""C05 ORDER BY output is sorted by the requested keys and loses or invents no row."""
import itertools

from fsx import core
from fsx import ordmodel as om

ID = 'C05'
LEVEL = 'exploration'
RULE = ('every key list of length 1..L (quick 2, thorough 3) over {name, ext, path, size, hardlinks, uid, modified, '
        'length(name), size * 2, size + hardlinks, size - 50, day(modified), year(modified), 1000 - size (positional)} plus lists that repeat a key x every direction vector x {explicit asc, omitted} x {explicit, '
        'positional, with decoy columns that mention the key columns} spelling x key selected or not x with/without WHERE x readdir arrival order {sorted, reversed} '
        '(shim); non-trivial = key vectors are not all equal and the ordered output differs from the unordered one')
ASSUMPTIONS = ['key values come from lstat of the generated tree, not from the output',
               'string keys compare bytewise (UTF-8), numeric keys by value, dates chronologically',
               'LD_PRELOAD shim fixes the readdir order; a pass-through self-test guards the shim']
BUDGET = {'quick': 50, 'thorough': 1200}
KEYNAMES = list(om.KEYS)


def bounds(tier):
    return {'max_keys': 2 if tier == 'quick' else 3, 'keys': KEYNAMES, 'readdir_orders': ['sorted', 'rev']}


def groups(tier, seed):
    L = 2 if tier == 'quick' else 3
    lists = []
    for n in range(1, L + 1):
        lists.extend(itertools.permutations(KEYNAMES, n))
    # a key may be listed twice (the repeat cannot change the order): (a, a), (a, b, a), (a, b, b)
    rep = ['size', 'name', 'modified', 'ext', 'hardlinks']
    for a in rep:
        lists.append((a, a))
        for b in rep:
            if a != b:
                lists.append((a, b, a))
                lists.append((a, b, b))
    for kl in lists:
        n = len(kl)
        if True:
            cases = []
            for dirs in itertools.product([True, False], repeat=n):
                for spell in ('explicit', 'asc', 'positional', 'decoy'):
                    if spell != 'positional' and any(k in om.POSITIONAL_ONLY for k in kl):
                        continue
                    for where in (False, True):
                        for rd in ('sorted', 'rev'):
                            if n == 3 and (spell in ('asc', 'decoy') or (where and rd == 'rev')):
                                continue
                            if spell == 'decoy' and (where or n > 2):
                                continue
                            cases.append({'dirs': list(dirs), 'spell': spell, 'where': where, 'rd': rd})
                            if 'modified' in kl and spell == 'explicit' and not where and n <= 2:
                                cases.append({'dirs': list(dirs), 'spell': spell, 'where': where, 'rd': rd, 'tz': 'Europe/Berlin'})
            yield {'keys': list(kl), 'cases': cases}


def single(case):
    return {'keys': case['keys'], 'cases': [{k: case[k] for k in ('dirs', 'spell', 'where', 'rd', 'tz') if k in case}]}


def eval_group(env, group, tier):
    root = env.newdir('c5')
    core.materialise(root, om.ord_tree())
    keys = group['keys']
    outs = []
    try:
        ents = {e['path']: e for e in om.entries(root)}
        # shim self-test: pass-through gives the same multiset as no shim
        base = env.run(['path into list'], cwd=root)
        thru = env.run(['path into list'], cwd=root, preload=True)
        if sorted(base.rows()) != sorted(thru.rows()) or sorted(base.rows()) != sorted(ents):
            raise core.MachineryError('shim pass-through / model self-test failed')
        for c in group['cases']:
            w = ' where size gt 4' if c['where'] else ''
            universe = sorted(p for p, e in ents.items() if not c['where'] or e['size'] > 4)
            if c['spell'] == 'decoy':
                # other columns that mention the key columns (negated, scaled, wrapped) must not influence the order
                sel = ['path', '-size', '-hardlinks', 'size * 3', 'upper(name)', 'length(name) + 1', '-length(name)', 'lower(ext)']
                ob = ', '.join(k + ('' if d else ' desc') for k, d in zip(keys, c['dirs']))
            elif c['spell'] == 'positional':
                sel = ['path'] + keys
                ob = ', '.join('%d%s' % (i + 2, '' if d else ' desc') for i, d in enumerate(c['dirs']))
            else:
                sel = ['path']
                asc = ' asc' if c['spell'] == 'asc' else ''
                ob = ', '.join(k + (asc if d else ' desc') for k, d in zip(keys, c['dirs']))
            q = ', '.join(sel) + ' from .' + w + ' order by ' + ob + ' into list'
            envx = {'FSX_READDIR': c['rd']}
            if c.get('tz'):
                envx['TZ'] = c['tz']
            o = env.run([q], cwd=root, preload=True, env=envx)
            case = dict(c, keys=keys, query=q)
            res = {'case': case, 'layer': 'keys=%d' % len(keys)}
            rows = o.rows(len(sel))
            if o.timeout or o.rc != 0 or o.err or rows is None:
                res.update(status='viol', cls='status-or-shape', detail=dict(o.brief(), query=q), sig=('err',), nt=True)
                outs.append(res)
                continue
            paths = [r if len(sel) == 1 else r[0] for r in rows]
            if c.get('tz'):
                pass
            if c.get('tz'):
                # dates are compared as local wall-clock time: two instants of a repeated DST hour are a tie
                import datetime as _dt
                from zoneinfo import ZoneInfo
                z = ZoneInfo(c['tz'])
                loc = lambda e: dict(e, mtime=int(_dt.datetime.fromtimestamp(e['mtime'], z).replace(tzinfo=_dt.timezone.utc).timestamp()))
                vecs = [om.keyvec(loc(ents[p]), keys) for p in paths if p in ents]
            else:
                vecs = [om.keyvec(ents[p], keys) for p in paths if p in ents]
            res['nt'] = len(set(vecs)) > 1
            res['trans'] = max(1, len(paths) - 1)
            if sorted(paths) != universe:
                res.update(status='viol', cls='not-a-permutation', sig=('perm',),
                           detail={'query': q, 'missing': sorted(set(universe) - set(paths))[:5],
                                   'extra': sorted(set(paths) - set(universe))[:5], 'n': len(paths), 'expected_n': len(universe)})
            else:
                bad = om.sorted_ok(vecs, c['dirs'])
                if bad is not None:
                    ktypes = '+'.join(sorted({om.KEYS[k][0] + ':' + k for k in keys}))
                    # name the first key at which the offending pair is out of order
                    a, b = vecs[bad], vecs[bad + 1]
                    first = next(k for k, x, y in zip(keys, a, b) if x != y)
                    res.update(status='viol', cls='unsorted:' + first, sig=('unsorted', first),
                               detail={'query': q, 'pair': [paths[bad], paths[bad + 1]], 'keys': [list(map(str, a)), list(map(str, b))],
                                       'readdir': c['rd'], 'keyset': ktypes})
                else:
                    res.update(status='ok', sig=tuple(paths))
            outs.append(res)
    finally:
        env.rmtree(root)
    return outs
