"""C05 ORDER BY output is sorted by the requested keys and loses or invents no row."""
import itertools

from fsx import core
from fsx import ordmodel as om

ID = 'C05'
LEVEL = 'exploration'
RULE = ('every key list of length 1..L (quick 2, thorough 3) over {name, ext, path, size, hardlinks, uid, modified, '
        'length(name), size * 2, size + hardlinks, size - 50, day(modified), year(modified), 1000 - size (positional)} plus lists that repeat a key x every direction vector x {explicit asc, omitted} x {explicit, '
        'positional, with decoy columns that mention the key columns} spelling x key selected or not x with/without WHERE x readdir arrival order {sorted, reversed} '
        '(shim); non-trivial = key vectors are not all equal and the ordered output differs from the unordered one'
        '; odd keys: keys that some rows have no value for beside negative and fractional ones (line_count, -line_count, sqrt(line_count) ...), whole numbers around 2^53 and 2^60, modification years -1..19999 (the last two on /dev/shm) x direction x readdir order x {no limit, limit 3}; keys that begin with a sign or bracket')
ASSUMPTIONS = ['key values come from lstat of the generated tree, not from the output',
               'string keys compare bytewise (UTF-8), numeric keys by value, dates chronologically',
               'LD_PRELOAD shim fixes the readdir order; a pass-through self-test guards the shim']
BUDGET = {'quick': 50, 'thorough': 1200}
KEYNAMES = list(om.KEYS)


def bounds(tier):
    return {'max_keys': 2 if tier == 'quick' else 3, 'keys': KEYNAMES, 'readdir_orders': ['sorted', 'rev']}


def groups(tier, seed):
    L = 2 if tier == 'quick' else 3
    lists = []
    for n in range(1, L + 1):
        lists.extend(itertools.permutations(KEYNAMES, n))
    # a key may be listed twice (the repeat cannot change the order): (a, a), (a, b, a), (a, b, b)
    rep = ['size', 'name', 'modified', 'ext', 'hardlinks']
    for a in rep:
        lists.append((a, a))
        for b in rep:
            if a != b:
                lists.append((a, b, a))
                lists.append((a, b, b))
    # date keys that some rows do not have (zip members carry no access / creation time): the rows that have one stay sorted
    for key in ('accessed', 'created', 'modified'):
        for desc in (False, True):
            yield {'kind': 'arcdate', 'key': key, 'desc': desc, 'keys': [key], 'cases': []}
    # archive members are rows too: a key that is not selected orders them by their own values
    yield {'kind': 'arckeys', 'keys': ['arckeys'], 'cases': []}
    # a value of one key column that is, as text, a value of another key column of another kind (a file named like a printed date, like a size)
    yield {'kind': 'lookalike', 'keys': ['lookalike'], 'cases': []}
    # keys some rows have no value for, next to negative and fractional values; whole numbers beyond 2^53; years beyond 9999
    for fam in ('empty', 'bigint', 'fardate'):
        yield {'kind': 'oddkeys', 'fam': fam, 'keys': [fam], 'cases': []}
    # standard output is a terminal (names are coloured there): the order is that of the values, not of their decoration
    yield {'kind': 'tty', 'keys': ['tty'], 'cases': []}
    for kl in lists:
        n = len(kl)
        if True:
            cases = []
            for dirs in itertools.product([True, False], repeat=n):
                for spell in ('explicit', 'asc', 'positional', 'decoy'):
                    if spell != 'positional' and any(k in om.POSITIONAL_ONLY for k in kl):
                        continue
                    for where in (False, True):
                        for rd in ('sorted', 'rev'):
                            if n == 3 and (spell in ('asc', 'decoy') or (where and rd == 'rev')):
                                continue
                            if spell == 'decoy' and (where or n > 2):
                                continue
                            cases.append({'dirs': list(dirs), 'spell': spell, 'where': where, 'rd': rd})
                            if where and spell == 'explicit' and n == 1 and (om.KEYS[kl[0]][0] != 'str' or kl[0] in ('name', 'path', 'upper(name)')):
                                # the key is mentioned on the right of an OR only (rows let through by the left side never evaluate it)
                                cases.append({'dirs': list(dirs), 'spell': spell, 'where': 'or', 'rd': rd})
                            if 'modified' in kl and spell == 'explicit' and not where and n <= 2:
                                cases.append({'dirs': list(dirs), 'spell': spell, 'where': where, 'rd': rd, 'tz': 'Europe/Berlin'})
            yield {'keys': list(kl), 'cases': cases}


def single(case):
    if case.get('kind') == 'tty':
        return {'kind': 'tty', 'keys': ['tty'], 'cases': [], 'only': case['query']}
    if case.get('kind') == 'lookalike':
        return {'kind': 'lookalike', 'keys': ['lookalike'], 'cases': [], 'only': case['query']}
    if case.get('kind') == 'arckeys':
        return {'kind': 'arckeys', 'keys': ['arckeys'], 'cases': [], 'only': case['query']}
    if case.get('kind') == 'oddkeys':
        return {'kind': 'oddkeys', 'fam': case['fam'], 'keys': [case['fam']], 'cases': [], 'only': [case['key'], case['desc'], case['rd'], case['limit']]}
    if case.get('kind') == 'arcdate':
        return {'kind': 'arcdate', 'key': case['key'], 'desc': case['desc'], 'keys': [case['key']], 'cases': [], 'only': case['variant']}
    return {'keys': case['keys'], 'cases': [{k: case[k] for k in ('dirs', 'spell', 'where', 'rd', 'tz') if k in case}]}


def make_zip(names, when=(2020, 5, 17, 10, 20, 30)):
    import io
    import zipfile
    buf = io.BytesIO()
    with zipfile.ZipFile(buf, 'w') as z:
        for i, n in enumerate(names):
            z.writestr(zipfile.ZipInfo(n, date_time=when[:5] + (2 * i,)), 'x' * (i + 1))
    return buf.getvalue()


def eval_arcdate(env, group):
    import os
    root = env.newdir('c5a')
    F, D = core.F, core.D
    core.materialise(root, {'0.zip': F(data=make_zip(['m1.log', 'm2.log', 'm3.txt'])), 'z1.log': F(1), 'z2.log': F(2), 'z3.log': F(3),
                            'z4.log': F(4), 'a0.log': F(5), 'sub': D({'0a.zip': F(data=make_zip(['n1.log'], (2021, 1, 2, 3, 4, 6))), 'y1.log': F(1), 'y2.log': F(2)})})
    t0 = 1600000000
    for i, n in enumerate(['z1.log', 'z2.log', 'z3.log', 'z4.log', 'a0.log', 'sub/y1.log', 'sub/y2.log', '0.zip', 'sub/0a.zip']):
        os.utime(os.path.join(root, n), (t0 + (7 - i) * 86400 * (1 if i % 2 else 3), t0 + i * 3600))
    outs = []
    key, desc = group['key'], group['desc']
    try:
        for wi, w in enumerate(('', " where name like '%.log'", ' where size < 4')):
            for mode in ('', ' dfs'):
                for rd in ('sorted', 'rev'):
                    variant = [wi, mode, rd]
                    if group.get('only') is not None and group['only'] != variant:
                        continue
                    frm = ' from . archives' + mode + w
                    q = 'path, %s%s order by %s%s into list' % (key, frm, key, ' desc' if desc else '')
                    envx = {'FSX_READDIR': rd}
                    if wi == 2:
                        envx['FSX_NOW'] = '1709208000'       # today is 29 February: a date without a 1970 twin
                    o = env.run([q], cwd=root, preload=True, env=envx)
                    o0 = env.run(['path, %s%s into list' % (key, frm)], cwd=root, preload=True, env={'FSX_READDIR': rd})
                    rows, rows0 = o.rows(2), o0.rows(2)
                    res = {'case': {'kind': 'arcdate', 'key': key, 'desc': desc, 'variant': variant, 'query': q}, 'layer': 'archive-dates', 'nt': True,
                           'trans': len(rows or []) + 1}
                    if o.timeout or o.rc != 0 or o.err or rows is None or rows0 is None:
                        res.update(status='viol', cls='status-or-shape', detail=dict(o.brief(), query=q), sig=('err',))
                    elif sorted(p_ for p_, _ in rows) != sorted(p_ for p_, _ in rows0):     # access times may move between two runs
                        res.update(status='viol', cls='not-a-permutation', sig=('perm',), detail={'query': q, 'n': len(rows), 'expected_n': len(rows0)})
                    else:
                        dated = [(p_, v) for p_, v in rows if v]
                        bad = next((i for i in range(len(dated) - 1) if (dated[i][1] > dated[i + 1][1]) != desc and dated[i][1] != dated[i + 1][1]), None)
                        if bad is not None:
                            res.update(status='viol', cls='unsorted:' + key, sig=('unsorted', key),
                                       detail={'query': q, 'pair': [list(dated[bad]), list(dated[bad + 1])], 'readdir': rd,
                                               'rows_without_a_value': len(rows) - len(dated)})
                        else:
                            res.update(status='ok', sig=tuple(p_ for p_, _ in dated))
                    outs.append(res)
    finally:
        env.rmtree(root)
    return outs


def eval_lookalike(env, group):
    import os
    import time
    root = env.newdir('c5l')
    F, D = core.F, core.D
    t1, t2, t3 = 1614834367, 1546300800, 1700000000      # 2021-03-04 05:06:07, 2019-01-01 00:00:00, 2023-11-14 22:13:20 (UTC)
    stamp = lambda t: time.strftime('%Y-%m-%d %H:%M:%S', time.gmtime(t))
    core.materialise(root, {stamp(t1): F(100, mtime=t2), '100': F(7, mtime=t3), stamp(t2): F(3, mtime=t3), 'zeta': F(50, mtime=t1 + 1), 'alpha': F(100, mtime=t1 - 1),
                            'sub': D({'x': F(7, mtime=t1), 'y': F(100, mtime=t2), '7': F(1, mtime=t1), 'sub2': D({stamp(t3): F(7, mtime=t1), 'w': F(3, mtime=t3)}, mtime=t2)}, mtime=t3),
                            # a value that is the beginning of another one, which goes on with a control character (lower than any separator)
                            'notes': F(2, mtime=t2), 'notes\tv2': F(2, mtime=t2), 'notes\x01b': F(2, mtime=t3), 'ab': F(4, mtime=t1), 'ab\x1e': F(4, mtime=t1), 'ab\x1f.x': F(4, mtime=t1),
                            'ab.x': F(4, mtime=t1)})
    outs = []
    try:
        ents = {}
        for dp, dns, fns in os.walk(root):
            for n in dns + fns:
                p_ = os.path.join(dp, n)
                st = os.lstat(p_)
                ents['./' + os.path.relpath(p_, root)] = {'name': n, 'modified': int(st.st_mtime), 'size': st.st_size, 'path': './' + os.path.relpath(p_, root),
                                                          'ext': n.rsplit('.', 1)[1] if '.' in n[1:] else ''}
        for keys in (('modified', 'name'), ('name', 'modified'), ('size', 'name'), ('name', 'size'), ('modified', 'size', 'name'), ('name',), ('modified',),
                     ('name', 'path'), ('name', 'ext'), ('ext', 'name'), ('name', 'ext', 'path')):
            for descs in ([False] * len(keys), [True] * len(keys), [i % 2 == 0 for i in range(len(keys))]):
                for sel in ('path', 'path, ' + ', '.join(keys)):
                    for mode in ('', ' dfs'):
                        for rd in ('sorted', 'rev'):
                            q = '%s from .%s where is_file = true order by %s' % (sel, mode, ', '.join(k + (' desc' if d else '') for k, d in zip(keys, descs)))
                            if group.get('only') is not None and group['only'] != [q, rd]:
                                continue
                            o = env.run([q + ' into list'], cwd=root, preload=True, env={'FSX_READDIR': rd})
                            ncol = 1 + (len(keys) if ',' in sel else 0)
                            rows = o.rows(ncol) if ncol > 1 else o.rows()
                            paths = [r_[0] if ncol > 1 else r_ for r_ in (rows or [])]
                            res = {'case': {'kind': 'lookalike', 'query': [q, rd]}, 'layer': 'look-alike-values', 'nt': True, 'trans': len(paths) + 1}
                            files = sorted(p_ for p_ in ents if os.path.isfile(os.path.join(root, p_)))
                            if o.rc != 0 or o.err or sorted(paths) != files:
                                res.update(status='viol', cls='not-a-permutation', sig=('perm',), detail=dict(o.brief(), query=q))
                            else:
                                ks = [tuple(ents[p_][k] for k in keys) for p_ in paths]
                                bad = None
                                for i in range(len(ks) - 1):
                                    for (x, y, d) in zip(ks[i], ks[i + 1], descs):
                                        if x != y:
                                            if (x > y) != d:
                                                bad = i
                                            break
                                    if bad is not None:
                                        break
                                if bad is not None:
                                    res.update(status='viol', cls='unsorted:look-alike-values', sig=('unsorted', keys),
                                               detail={'query': q, 'readdir': rd, 'pair': [[paths[bad], list(map(str, ks[bad]))], [paths[bad + 1], list(map(str, ks[bad + 1]))]]})
                                else:
                                    res.update(status='ok', sig=tuple(paths))
                            outs.append(res)
    finally:
        env.rmtree(root)
    return outs


def eval_arckeys(env, group):
    import io
    import zipfile
    root = env.newdir('c5k')
    F, D = core.F, core.D

    def z(members):
        buf = io.BytesIO()
        with zipfile.ZipFile(buf, 'w') as zf:
            for i, (n, size, day) in enumerate(members):
                zf.writestr(zipfile.ZipInfo(n, date_time=(2015 + day, 1 + day % 12, 1 + day, 4, 5, 2 * i)), 'x' * size)
        return buf.getvalue()
    core.materialise(root, {'k.zip': F(data=z([('mm.log', 50, 7), ('zz.txt', 7, 3), ('aa.rs', 900, 9), ('q.md', 1, 1), ('bbbbb.c', 300, 5)])), 'f10': F(10), 'f400.txt': F(400),
                            'sub': D({'j.jar': F(data=z([('w', 20, 2), ('a.longer.name', 2, 8), ('k.k', 200, 4)])), 'g60.log': F(60)})})
    outs = []
    try:
        for key, conv in (('size', int), ('name', str), ('modified', str), ('size * 2', int), ('length(name)', int), ('ext', str), ('1000 - size', int)):
            for desc in ('', ' desc'):
                for w in ('', ' where size gt 5'):
                    for mode in ('', ' dfs'):
                        q = 'path from . archives%s%s order by %s%s' % (mode, w, key, desc)
                        if group.get('only') is not None and group['only'] != q:
                            continue
                        o = env.run([q + ' into list'], cwd=root)
                        o2 = env.run(['path, %s from . archives%s%s into list' % (key, mode, w)], cwd=root)
                        rows, rows2 = o.rows(), o2.rows(2)
                        res = {'case': {'kind': 'arckeys', 'query': q}, 'layer': 'archive-member-keys', 'nt': True, 'trans': len(rows or []) + 1}
                        if o.timeout or o.rc != 0 or o.err or o2.rc != 0 or rows2 is None:
                            res.update(status='viol', cls='status-or-shape', detail=dict(o.brief(), query=q), sig=('err',))
                        elif sorted(rows) != sorted(p_ for p_, _ in rows2) or len(rows) < (8 if w else 12):
                            res.update(status='viol', cls='not-a-permutation', sig=('perm',), detail={'query': q, 'n': len(rows), 'expected_n': len(rows2)})
                        else:
                            val = {p_: conv(v) for p_, v in rows2}
                            ks = [val[p_] for p_ in rows]
                            bad = next((i for i in range(len(ks) - 1) if (ks[i] > ks[i + 1]) != bool(desc) and ks[i] != ks[i + 1]), None)
                            if bad is not None:
                                res.update(status='viol', cls='unsorted:unselected-key-of-members', sig=('unsorted', key),
                                           detail={'query': q, 'pair': [[rows[bad], str(ks[bad])], [rows[bad + 1], str(ks[bad + 1])]]})
                            else:
                                res.update(status='ok', sig=tuple(rows))
                        outs.append(res)
    finally:
        env.rmtree(root)
    return outs


def run_on_terminal(env, argv, cwd, extra_env):
    """the subject with a pseudo terminal as standard output; returns (status, text with the escape sequences removed)"""
    import os
    import pty
    import re
    import subprocess
    e = dict(env.baseenv)
    e.pop('NO_COLOR', None)
    e.update(extra_env)
    master, slave = pty.openpty()
    env.runs += 1
    p = subprocess.Popen([env.binary] + argv, cwd=cwd, env=e, stdin=subprocess.DEVNULL, stdout=slave, stderr=subprocess.PIPE, start_new_session=True)
    os.close(slave)
    chunks = []
    while True:
        try:
            data = os.read(master, 65536)
        except OSError:
            break
        if not data:
            break
        chunks.append(data)
    os.close(master)
    _, err = p.communicate(timeout=20)
    text = b''.join(chunks).decode('utf-8', 'replace').replace('\r\n', '\n')
    return p.returncode, re.sub(r'\x1b\[[0-9;]*[A-Za-z]', '', text), err, text


def eval_tty(env, group):
    import os
    root = env.newdir('c5t')
    F, D = core.F, core.D
    core.materialise(root, {'zeta.txt': F(1), 'alpha': D({}), 'mid.sh': F(3, mode=0o755), 'beta.txt': F(2), 'omega': D({}), 'gamma.sh': F(4, mode=0o755),
                            'delta.tar': F(5), 'aaa.jpg': F(6), 'link': {'t': 'l', 'to': 'zeta.txt'}, 'kappa': F(7)})
    colors = {'LS_COLORS': 'di=01;34:ln=01;36:ex=01;32:*.tar=01;31:*.jpg=01;35:*.txt=00;33', 'TERM': 'xterm-256color'}
    outs = []
    try:
        for sel, ob, key in (('name', '1', 'name'), ('name, size', '1', 'name'), ('size, name', '2', 'name'), ('name', '1 desc', 'name'), ('name', 'name', 'name'),
                             ('name, size', '2', 'size'), ('name, size', '2 desc, 1', 'size'), ('path, name', '2', 'name'), ('name, ext', '2, 1', 'ext')):
            q = '%s from . order by %s' % (sel, ob)
            if group.get('only') is not None and group['only'] != q:
                continue
            ref = env.run([q + ' into tabs'], cwd=root)
            rc, text, err, raw = run_on_terminal(env, [q], root, colors)
            res = {'case': {'kind': 'tty', 'query': q}, 'layer': 'terminal', 'nt': True, 'trans': 10}
            want = [l.split('\t') for l in ref.out.decode().split('\n') if l]
            got = [l.split('\t') for l in text.split('\n') if l]
            if ref.rc != 0 or len(want) != 10:
                raise core.MachineryError('C05 tty reference run failed %r' % ref.brief())
            if rc != 0 or err:
                res.update(status='viol', cls='terminal:status', detail={'query': q, 'rc': rc, 'err': err[:200].decode('utf-8', 'replace')}, sig=('err',))
            elif got != want:
                res.update(status='viol', cls='terminal:order-differs-from-pipe', sig=('tty', ob), detail={'query': q, 'terminal': got[:10], 'pipe': want[:10],
                                                                                                            'coloured': '\x1b[' in raw})
            else:
                res.update(status='ok', sig=(q, '\x1b[' in raw))
            outs.append(res)
    finally:
        env.rmtree(root)
    return outs


def eval_oddkeys(env, group):
    import math
    import os
    import subprocess
    import tempfile
    from fractions import Fraction
    fam = group['fam']
    F, D = core.F, core.D
    outs = []
    shm = None
    if fam == 'empty':
        root = env.newdir('c5o')
        lines = {'a1': 1, 'b3': 3, 'c2': 2, 'd7': 7, 'e0': 0, 'f10': 10, 'g3': 3}
        tree = {n: F(data=b'x\n' * k) for n, k in lines.items()}
        tree['0dir'] = D({'h5': F(data=b'x\n' * 5), 'zsub': D({})})
        tree['mdir'] = D({'i4': F(data=b'x\n' * 4)})
        tree['zdir'] = D({})
        core.materialise(root, tree)
        val = {n: k for n, k in lines.items()}
        val.update(h5=5, i4=4)
        keys = {'line_count': lambda k: Fraction(k), '-line_count': lambda k: Fraction(-k), 'sqrt(line_count)': lambda k: math.sqrt(k),
                'line_count - 3': lambda k: Fraction(k - 3), 'line_count / 4': lambda k: Fraction(k, 4), 'line_count * -1.5': lambda k: Fraction(-3 * k, 2)}
        value = lambda name, kf: kf(val[name]) if name in val else None
    else:
        if not (os.path.isdir('/dev/shm') and os.access('/dev/shm', os.W_OK)):
            return [{'case': {'kind': 'oddkeys', 'fam': fam}, 'status': 'ok', 'nt': False, 'layer': 'odd-keys', 'sig': ('no-tmpfs',)}]
        shm = root = tempfile.mkdtemp(prefix='fsx-c05-', dir='/dev/shm')
        if fam == 'bigint':
            sizes = {'p53': 2 ** 53, 'p53a': 2 ** 53 + 1, 'p53b': 2 ** 53 + 2, 'p53m': 2 ** 53 - 1, 'p60': 2 ** 60, 'p60a': 2 ** 60 + 1, 'p60m': 2 ** 60 - 1, 'small': 7}
            for i, (n, v) in enumerate(sizes.items()):
                d = os.path.join(root, 'd%d' % (i % 3))
                os.makedirs(d, exist_ok=True)
                with open(os.path.join(d, n), 'wb') as fh:
                    fh.truncate(v)
            if os.lstat(os.path.join(root, 'd1', 'p53a')).st_size != 2 ** 53 + 1:
                subprocess.run(['rm', '-rf', shm])
                return [{'case': {'kind': 'oddkeys', 'fam': fam}, 'status': 'ok', 'nt': False, 'layer': 'odd-keys', 'sig': ('no-big-files',)}]
            keys = {'size': lambda v: v}
            value = lambda name, kf: sizes.get(name)
        else:
            stamps = {'y2030': 1893456000, 'y12024': 317277907200, 'y2025': 1735689600, 'y10000': 253402300800, 'y9999': 253402300799, 'bce': -62198755200,
                      'y0001': -62135596800 + 86400, 'y19999': 568943395200}
            for i, (n, ts) in enumerate(stamps.items()):
                d = os.path.join(root, 'd%d' % (i % 3))
                os.makedirs(d, exist_ok=True)
                open(os.path.join(d, n), 'w').close()
                os.utime(os.path.join(d, n), (ts, ts))
            if int(os.lstat(os.path.join(root, 'd1', 'y12024')).st_mtime) != 317277907200:
                subprocess.run(['rm', '-rf', shm])
                return [{'case': {'kind': 'oddkeys', 'fam': fam}, 'status': 'ok', 'nt': False, 'layer': 'odd-keys', 'sig': ('no-far-stamps',)}]
            keys = {'modified': lambda v: v}
            value = lambda name, kf: stamps.get(name)
    try:
        for key, kf in keys.items():
            for desc in (False, True):
                for rd in ('sorted', 'rev'):
                    for limit in (0, 3):
                        if group.get('only') is not None and group['only'] != [key, desc, rd, limit]:
                            continue
                        w = '' if fam == 'empty' else ' where is_file = true'
                        q = 'name from .%s order by %s%s%s into list' % (w, key, ' desc' if desc else '', ' limit %d' % limit if limit else '')
                        o = env.run([q], cwd=root, preload=True, env={'FSX_READDIR': rd, 'TZ': 'UTC'})
                        res = {'case': {'kind': 'oddkeys', 'fam': fam, 'key': key, 'desc': desc, 'rd': rd, 'limit': limit, 'query': q}, 'layer': 'odd-keys', 'nt': True}
                        rows = o.rows()
                        if o.timeout or o.rc != 0 or o.err:
                            res.update(status='viol', cls='status-or-shape', detail=dict(o.brief(), query=q), sig=('err',))
                            outs.append(res)
                            continue
                        res['trans'] = len(rows) + 1
                        have = [(n, value(n, kf)) for n in rows]
                        valued = [(n, v) for n, v in have if v is not None]
                        bad = next((i for i in range(len(valued) - 1) if valued[i][1] != valued[i + 1][1] and (valued[i][1] > valued[i + 1][1]) != desc), None)
                        if bad is not None:
                            res.update(status='viol', cls='unsorted:' + fam, sig=('unsorted', key),
                                       detail={'query': q, 'pair': [valued[bad][0], valued[bad + 1][0]], 'readdir': rd, 'rows': rows[:12]})
                        elif not limit and len(rows) != (13 if fam == 'empty' else 8):
                            res.update(status='viol', cls='not-a-permutation', sig=('perm',), detail={'query': q, 'n': len(rows)})
                        elif limit and fam != 'empty':
                            # with a limit the rows are the first of the full order (all keys differ)
                            full = sorted((value(n, kf), n) for n in (sizes if fam == 'bigint' else stamps))
                            if desc:
                                full.reverse()
                            if rows != [n for _, n in full[:limit]]:
                                res.update(status='viol', cls='limit-not-the-first:' + fam, sig=('limit', key),
                                           detail={'query': q, 'got': rows, 'expected': [n for _, n in full[:limit]]})
                            else:
                                res.update(status='ok', sig=tuple(rows))
                        else:
                            res.update(status='ok', sig=tuple(rows))
                        outs.append(res)
    finally:
        if shm:
            subprocess.run(['rm', '-rf', shm])
        else:
            env.rmtree(root)
    return outs


def eval_group(env, group, tier):
    if group.get('kind') == 'arcdate':
        return eval_arcdate(env, group)
    if group.get('kind') == 'oddkeys':
        return eval_oddkeys(env, group)
    if group.get('kind') == 'arckeys':
        return eval_arckeys(env, group)
    if group.get('kind') == 'lookalike':
        return eval_lookalike(env, group)
    if group.get('kind') == 'tty':
        return eval_tty(env, group)
    root = env.newdir('c5')
    core.materialise(root, om.ord_tree())
    keys = group['keys']
    outs = []
    try:
        ents = {e['path']: e for e in om.entries(root)}
        # shim self-test: pass-through gives the same multiset as no shim
        base = env.run(['path into list'], cwd=root)
        thru = env.run(['path into list'], cwd=root, preload=True)
        if sorted(base.rows()) != sorted(thru.rows()) or sorted(base.rows()) != sorted(ents):
            raise core.MachineryError('shim pass-through / model self-test failed')
        for c in group['cases']:
            if c['where'] == 'or':
                ktype, kf = om.KEYS[keys[0]]
                vals = sorted(kf(e) for e in ents.values())
                cut = vals[(2 * len(vals)) // 3]
                lit = {'num': str(cut), 'str': "'%s'" % cut, 'date': "'2019-01-01'"}[ktype]
                if ktype == 'date':
                    cut = 1546300800
                w = " where ext = 'txt' or %s > %s" % (keys[0], lit)
                universe = sorted(p for p, e in ents.items() if e['ext'] == 'txt' or kf(e) > cut)
            else:
                w = ' where size gt 4' if c['where'] else ''
                universe = sorted(p for p, e in ents.items() if not c['where'] or e['size'] > 4)
            if c['spell'] == 'decoy':
                # other columns that mention the key columns (negated, scaled, wrapped) must not influence the order
                sel = ['path', '-size', '-hardlinks', 'size * 3', 'upper(name)', 'length(name) + 1', '-length(name)', 'lower(ext)']
                ob = ', '.join(k + ('' if d else ' desc') for k, d in zip(keys, c['dirs']))
            elif c['spell'] == 'positional':
                sel = ['path'] + keys
                ob = ', '.join('%d%s' % (i + 2, '' if d else ' desc') for i, d in enumerate(c['dirs']))
            else:
                sel = ['path']
                asc = ' asc' if c['spell'] == 'asc' else ''
                ob = ', '.join(k + (asc if d else ' desc') for k, d in zip(keys, c['dirs']))
            q = ', '.join(sel) + ' from .' + w + ' order by ' + ob + ' into list'
            envx = {'FSX_READDIR': c['rd']}
            if c.get('tz'):
                envx['TZ'] = c['tz']
            o = env.run([q], cwd=root, preload=True, env=envx)
            case = dict(c, keys=keys, query=q)
            res = {'case': case, 'layer': 'keys=%d' % len(keys)}
            rows = o.rows(len(sel))
            if o.timeout or o.rc != 0 or o.err or rows is None:
                res.update(status='viol', cls='status-or-shape', detail=dict(o.brief(), query=q), sig=('err',), nt=True)
                outs.append(res)
                continue
            paths = [r if len(sel) == 1 else r[0] for r in rows]
            if c.get('tz'):
                pass
            if c.get('tz'):
                # dates are compared as local wall-clock time: two instants of a repeated DST hour are a tie
                import datetime as _dt
                from zoneinfo import ZoneInfo
                z = ZoneInfo(c['tz'])
                loc = lambda e: dict(e, mtime=int(_dt.datetime.fromtimestamp(e['mtime'], z).replace(tzinfo=_dt.timezone.utc).timestamp()))
                vecs = [om.keyvec(loc(ents[p]), keys) for p in paths if p in ents]
            else:
                vecs = [om.keyvec(ents[p], keys) for p in paths if p in ents]
            res['nt'] = len(set(vecs)) > 1
            res['trans'] = max(1, len(paths) - 1)
            if sorted(paths) != universe:
                res.update(status='viol', cls='not-a-permutation', sig=('perm',),
                           detail={'query': q, 'missing': sorted(set(universe) - set(paths))[:5],
                                   'extra': sorted(set(paths) - set(universe))[:5], 'n': len(paths), 'expected_n': len(universe)})
            else:
                bad = om.sorted_ok(vecs, c['dirs'])
                if bad is not None:
                    ktypes = '+'.join(sorted({om.KEYS[k][0] + ':' + k for k in keys}))
                    # name the first key at which the offending pair is out of order
                    a, b = vecs[bad], vecs[bad + 1]
                    first = next(k for k, x, y in zip(keys, a, b) if x != y)
                    res.update(status='viol', cls='unsorted:' + first, sig=('unsorted', first),
                               detail={'query': q, 'pair': [paths[bad], paths[bad + 1]], 'keys': [list(map(str, a)), list(map(str, b))],
                                       'readdir': c['rd'], 'keyset': ktypes})
                else:
                    res.update(status='ok', sig=tuple(paths))
            outs.append(res)
    finally:
        env.rmtree(root)
    return outs
