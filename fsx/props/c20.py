"""C20 Ignore-file options remove exactly the ignored entries."""
import itertools
import os
import re
import subprocess

from fsx import core
from fsx.core import D, F, L

ID = 'C20'
LEVEL = 'exploration'
RULE = ('a 3-level tree whose names give every pattern kind matching and non-matching entries at the root and deeper; ignore '
        'files = EVERY pattern list of length 1..2 (thorough 1..3) over {literal, *.ext, dir/, dir/*.ext, **/name, name?, '
        '/anchored, comment, blank, !negation of each} for git and docker, and over glob/regexp sections with syntax: switches '
        'for hg; x root spelling {., relative, absolute, absolute through a symlinked ancestor, absolute with .. components, sub-directory of the repository with the ignore file in an ancestor, two roots in two different repositories}; the repository path contains regex metacharacters x '
        '{option, configuration default, no... override, off} x bfs/dfs x two roots; non-trivial = the list ignores some but not '
        'all entries'
        '; docker lines with blanks, ./, //, /../ and a byte order mark, entry names with a backslash; hg expressions with ^ inside, syntax names re/rootglob/relglob, per-line prefixes, an unknown syntax name')
ASSUMPTIONS = ['git verdicts come from `git check-ignore --no-index` run in the generated repository; the .git directory itself is '
               'outside the compared domain',
               'docker reference: patterns rooted at the context, * and ? do not cross /, ** crosses directories, a match on a '
               'parent directory counts, last matching pattern wins, ! re-includes (moby patternmatcher)',
               'a search root is never placed inside an ignored directory (libgit2 and git disagree about negations there)',
               'hg reference: unrooted glob = (?:|.*/)glob(?:/|$), regexp = unanchored search on the repository-relative path, a '
               'matched directory hides its subtree; hg itself is not installed, so this matcher is hand-written for the '
               'generated subset only']
BUDGET = {'quick': 55, 'thorough': 1500}


def bounds(tier):
    return {'max_patterns': 2 if tier == 'quick' else 3, 'atoms': len(ATOMS), 'tools': ['git', 'docker', 'hg']}


def the_tree():
    return {
        'a.o': F(1), 'b.o': F(1), 'keep.o': F(1), 'main.c': F(1), 'README': F(1), 'a.old': F(1), 'xo': F(1), 'name': F(1),
        'tmp1': F(1), 'tmp22': F(1), '.hidden.o': F(1), 'a!b.txt': F(1), 'c.txt': F(1), 'x\\y': F(1), 'a\\b.txt': F(1),
        'build': D({'out.o': F(1), 'gen.c': F(1), 'keep.o': F(1), 'deep': D({'x.o': F(1), 'name': F(1)})}),
        'src': D({'b.o': F(1), 'main.c': F(1), 'name': F(1), 'sub': D({'c.o': F(1), 'name': F(1), 'tmp1': F(1), 'tmp22': F(1)})}),
        'docs': D({'name': D({'inner': F(1)}), 'build': F(1)}),
    }


ATOMS = ['name', '*.o', 'build/', 'src/*.o', '**/name', 'tmp?', '/main.c', '# comment', '', 'build', 'src/sub', '*.c', '*.txt']
NEGS = ['!keep.o', '!*.o', '!build/', '!src/*.o', '!**/name', '!/main.c', '!build/keep.o', '!src/sub', '!a!b.txt']
HG_ATOMS = [('glob', 'name'), ('glob', '*.o'), ('glob', 'build'), ('glob', 'src/*.o'), ('glob', '**/name'), ('glob', 'tmp?'),
            ('regexp', r'\.o$'), ('regexp', '^build/'), ('regexp', 'name'), ('regexp', r'^src/.*\.c$'), ('regexp', 'tmp[0-9]$'),
            ('regexp', '^main'), ('glob', '# comment'), ('glob', 'src/sub'),
            # a trailing slash and a trailing comment change nothing
            ('glob', 'build/'), ('glob', '*.o # object files'), ('regexp', r'\.c$ # sources'), ('glob', 'src/sub/  # a directory')]


# docker reads a line as a path: blanks around the pattern and the `!`, `./`, doubled and dotted components and a byte order mark in front of the
# first line do not count; a backslash in an entry name is a character like any other
DOCKER_EXTRA = ['./main.c', 'src//sub', 'src/./sub', 'src/x/../sub', '  !keep.o', '  *.o  ', '! build/keep.o', '\ufeff*.o', 'x', '*.txt']
HG_EXTRA = [('regexp', '(^|/)build$'), ('regexp', r'\.o$|^main'), ('regexp', '(?:^|/)name$'), ('re', r'\.o$'), ('rootglob', '*.o'), ('rootglob', 'build'), ('rootglob', 'src/*.o'),
            ('regexp', 'glob:*.o'), ('glob', 're:^build/'), ('regexp', 'rootglob:name'), ('glob', 'relre:tmp[0-9]$'), ('@unknown', ''), ('relglob', 'tmp?')]


def pattern_lists(tier, tool):
    L = 2 if tier == 'quick' else 3
    if tool == 'hg':
        for n in range(1, L + 1):
            for combo in itertools.product(HG_ATOMS + HG_EXTRA, repeat=n):
                if len(set(combo)) < n:
                    continue
                if n == 3 and sum(1 for c in combo if c in HG_EXTRA) > 1:
                    continue
                yield list(combo)
        return
    pool = ATOMS + NEGS + (DOCKER_EXTRA if tool == 'docker' else [])
    for n in range(1, L + 1):
        for combo in itertools.product(pool, repeat=n):
            if len(set(combo)) < n:
                continue
            if all(c.strip().startswith('!') or c in ('', '# comment') for c in combo) and n > 1:
                continue
            if any(c.startswith('\ufeff') for c in combo[1:]):
                continue        # the mark counts in front of the first line only
            if n == 3 and sum(1 for c in combo if c in DOCKER_EXTRA) > 1:
                continue
            yield list(combo)


def render(tool, lst):
    if tool != 'hg':
        return '\n'.join(lst) + '\n'
    out, cur = [], 'regexp'
    for syn, pat in lst:
        if syn == '@unknown':       # an unknown syntax name is reported and changes nothing
            out.append('syntax: bogus')
            continue
        if syn != cur:
            out.append('syntax: ' + syn)
            cur = syn
        out.append(pat)
    return '\n'.join(out) + '\n'


# ------------------------------------------------------------------ reference matchers

def glob_re(pat, single='[^/]'):
    i, out = 0, ''
    while i < len(pat):
        if pat.startswith('**/', i):
            out += '(?:.*/)?'
            i += 3
        elif pat.startswith('**', i):
            out += '.*'
            i += 2
        elif pat[i] == '*':
            out += '[^/]*'
            i += 1
        elif pat[i] == '?':
            out += single
            i += 1
        else:
            out += re.escape(pat[i])
            i += 1
    return out


def prefixes(rel):
    parts = rel.split('/')
    return ['/'.join(parts[:k]) for k in range(1, len(parts) + 1)]


def docker_ignored(lst, rel):
    import posixpath
    verdict = False
    for i, line in enumerate(lst):
        if i == 0:
            line = line.lstrip('\ufeff')
        if line.startswith('#'):
            continue
        p = line.strip()
        if not p:
            continue
        neg = p.startswith('!')
        if neg:
            p = p[1:].strip()
        if p:
            p = posixpath.normpath(p)
            if p.startswith('//'):
                p = p[1:]
        p = p.strip('/')
        rx = re.compile(glob_re(p) + r'\Z')
        if any(rx.match(x) for x in prefixes(rel)):
            verdict = not neg
    return verdict


def hg_ignored(lst, rel):
    kinds = {'regexp': 'regexp', 're': 'regexp', 'relre': 'regexp', 'glob': 'glob', 'relglob': 'glob', 'rootglob': 'rootglob'}
    for syn, pat in lst:
        if syn == '@unknown':
            continue
        syn = kinds[syn]
        pat = re.sub(r'(?<!\\)#.*$', '', pat).rstrip()      # the rest of a line after # is a comment
        if not pat:
            continue
        m = re.match(r'(regexp|relre|re|relglob|rootglob|glob):(.*)$', pat)       # a line may name its own syntax
        if m:
            syn, pat = kinds[m.group(1)], m.group(2)
        if syn in ('glob', 'rootglob'):
            pat = pat.rstrip('/')
        for x in prefixes(rel):
            if syn == 'rootglob':
                if re.match(glob_re(pat, single='.') + '$', x):
                    return True
            elif syn == 'glob':
                if re.match('(?:|.*/)' + glob_re(pat, single='.') + '(?:/|$)', x + ('/' if False else '')):
                    return True
            else:
                if re.search(pat, x) or re.search(pat, x + '/') and x != rel:
                    return True
    return False


def git_ignored(repo, rels):
    inp = '\0'.join(rels) + '\0'
    p = subprocess.run(['git', '-C', repo, 'check-ignore', '--no-index', '-z', '--stdin'], input=inp.encode(), stdout=subprocess.PIPE,
                       stderr=subprocess.PIPE)
    if p.returncode not in (0, 1):
        raise core.MachineryError('git check-ignore failed: %s' % p.stderr.decode())
    return set(x for x in p.stdout.decode().split('\0') if x)


# ------------------------------------------------------------------ space

CONFIGS = [('absln', 'opt', ''), ('absdd', 'opt', 'dfs'), ('tworepo', 'opt', ''), ('tworepo2', 'opt', ''), ('tworepo-aba', 'opt', ''), ('tworepo-bab', 'opt', 'dfs'), ('tworepo-above', 'opt', ''), ('tworepo-above', 'opt', 'dfs'), ('dot', 'opt', ''), ('rel', 'opt', ''), ('abs', 'opt', 'dfs'), ('subdir', 'opt', ''), ('dot', 'config', ''),
           ('dot', 'config-no', ''), ('dot', 'off', ''), ('two', 'opt', ''), ('abs', 'opt', ''), ('subdir', 'opt', 'dfs')]


def groups(tier, seed):
    for tool in ('git', 'docker', 'hg'):
        chunk = []
        for lst in pattern_lists(tier, tool):
            chunk.append(lst)
            if len(chunk) >= 12:
                yield {'tool': tool, 'lists': chunk}
                chunk = []
        if chunk:
            yield {'tool': tool, 'lists': chunk}
    yield from combo_groups()
    yield from nested_groups()
    yield {'tool': 'context'}


COMBO_HG = [[('glob', 'build')], [('regexp', r'\.o$')], [('glob', 'src/sub')], [('regexp', '^build$')], [('glob', '*.c'), ('glob', 'docs')]]
COMBO_DOCKER = [['build', '!build/keep.o'], ['*', '!src', '!build/keep.o'], ['src', '!src/sub', '!src/sub/c.o'], ['build/', '!build/deep', '!build/deep/x.o'], ['**/name', '!docs/name']]
COMBO_GIT = [['build/', '!build/keep.o'], ['*.o', '!keep.o'], ['src/sub/']]


def combo_groups():
    # two kinds of ignore files in force on the same root: an entry is omitted when either tool's rules ignore it
    for hi in range(len(COMBO_HG)):
        for di in range(len(COMBO_DOCKER)):
            yield {'tool': 'combo', 'hg': hi, 'docker': di, 'git': None}
    for gi in range(len(COMBO_GIT)):
        for di in range(len(COMBO_DOCKER)):
            yield {'tool': 'combo', 'hg': None, 'docker': di, 'git': gi}
        for hi in range(len(COMBO_HG)):
            yield {'tool': 'combo', 'hg': hi, 'docker': None, 'git': gi}


def eval_combo(env, group):
    holder = env.newdir('c20c')
    repo = os.path.join(holder, 'repo')
    os.mkdir(repo)
    core.materialise(repo, the_tree())
    outs = []
    try:
        entries = sorted(p for p, n, l in core.walk_tree(the_tree()))
        files, opts, ign = [], [], set()
        if group['hg'] is not None:
            os.mkdir(os.path.join(repo, '.hg'))
            lst = COMBO_HG[group['hg']]
            open(os.path.join(repo, '.hgignore'), 'w').write(render('hg', lst))
            files.append('.hgignore')
            opts.append('hgignore')
        if group['docker'] is not None:
            dl = COMBO_DOCKER[group['docker']]
            open(os.path.join(repo, '.dockerignore'), 'w').write(render('docker', dl))
            files.append('.dockerignore')
            opts.append('dockerignore')
        if group['git'] is not None:
            subprocess.run(['git', 'init', '-q', repo], check=True, stdout=subprocess.DEVNULL, stderr=subprocess.DEVNULL, env=dict(os.environ, HOME=env.home, GIT_CONFIG_NOSYSTEM='1'))
            gl = COMBO_GIT[group['git']]
            open(os.path.join(repo, '.gitignore'), 'w').write(render('git', gl))
            files.append('.gitignore')
            opts.append('gitignore')
        allents = entries + files
        if group['hg'] is not None:
            ign |= {e for e in allents if hg_ignored(COMBO_HG[group['hg']], e)}
        if group['docker'] is not None:
            ign |= {e for e in allents if docker_ignored(COMBO_DOCKER[group['docker']], e)}
        if group['git'] is not None:
            ign |= git_ignored(repo, allents)
        for order in (opts, opts[::-1]):
            for mode in ('', 'dfs'):
                frm = '. ' + ' '.join(order) + (' ' + mode if mode else '')
                o = env.run(['path from ' + frm + ' into list'], cwd=repo, timeout=20.0)
                got = sorted(os.path.normpath(p) for p in o.rows() if not (os.path.normpath(p) == '.git' or os.path.normpath(p).startswith('.git/') or os.path.normpath(p) == '.hg'))
                exp = sorted(e for e in allents if e not in ign)
                case = dict(group, frm=frm)
                r = {'case': case, 'layer': 'combo', 'nt': 0 < len(ign) < len(allents), 'trans': len(allents)}
                if o.timeout or o.panicked or o.rc != 0 or o.err:
                    r.update(status='viol', cls='combo:status', detail=dict(o.brief(), frm=frm), sig=('err',))
                elif got != exp:
                    r.update(status='viol', cls='combo:rows', sig=('rows', tuple(opts)),
                             detail={'from': frm, 'hg': group['hg'] is not None and render('hg', COMBO_HG[group['hg']]), 'docker': group['docker'] is not None and '\n'.join(COMBO_DOCKER[group['docker']]),
                                     'wrongly_hidden': [e for e in exp if e not in got][:8], 'wrongly_shown': [e for e in got if e not in exp][:8]})
                else:
                    r.update(status='ok', sig=('combo', len(exp)))
                outs.append(r)
    finally:
        env.rmtree(holder)
    return outs


def nested_groups():
    # a repository inside a repository: the rules of the nearest one count, in both traversal orders and from every root
    for tool in ('git', 'hg'):
        for inner_rules in (None, 'own'):
            for mode in ('', 'bfs', 'dfs'):
                yield {'tool': 'nested', 'vcs': tool, 'inner': inner_rules, 'mode': mode}


def eval_nested(env, group):
    holder = env.newdir('c20n')
    vcs = group['vcs']
    top = os.path.join(holder, 'top')
    tree = {'A': D({'a.log': F(1), 'a.o': F(1), 'keep.c': F(1), 'N': D({'n.log': F(1), 'n.o': F(1), 'k.c': F(1), 'deep': D({'d.log': F(1), 'd.o': F(1)})}),
                    'sub': D({'s.log': F(1), 's.c': F(1)})}), 'B': D({'b.log': F(1)}), 'x.log': F(1)}
    os.mkdir(top)
    core.materialise(top, tree)
    A, N = os.path.join(top, 'A'), os.path.join(top, 'A', 'N')
    outs = []
    try:
        genv = dict(os.environ, HOME=env.home, GIT_CONFIG_NOSYSTEM='1')
        rules = {A: ['*.log'], N: (['*.o'] if group['inner'] == 'own' else [])}
        for repo in (A, N):
            if vcs == 'git':
                subprocess.run(['git', 'init', '-q', repo], check=True, stdout=subprocess.DEVNULL, stderr=subprocess.DEVNULL, env=genv)
                if rules[repo]:
                    open(os.path.join(repo, '.gitignore'), 'w').write('\n'.join(rules[repo]) + '\n')
            else:
                os.mkdir(os.path.join(repo, '.hg'))
                if rules[repo]:
                    open(os.path.join(repo, '.hgignore'), 'w').write('syntax: glob # the patterns below are globs\n' + '\n'.join(rules[repo]) + '\n')
        W = None
        if vcs == 'git':
            # a linked work tree (git worktree add) inside the outer repository: its .git is a file; it is a repository of its own
            W = os.path.join(A, 'W')
            gcmd = ['git', '-C', A, '-c', 'user.name=x', '-c', 'user.email=x@example.org']
            subprocess.run(gcmd + ['commit', '-q', '--allow-empty', '-m', 'c'], check=True, stdout=subprocess.DEVNULL, stderr=subprocess.DEVNULL, env=genv)
            subprocess.run(gcmd + ['worktree', 'add', '-q', '--detach', W], check=True, stdout=subprocess.DEVNULL, stderr=subprocess.DEVNULL, env=genv)
            core.materialise(W, {'w.log': F(1), 'w.c': F(1), 'deep': D({'x.log': F(1), 'y.o': F(1)})})
            rules[W] = []
        ents = []
        for dp, dns, fns in os.walk(top):
            fns[:] = [f_ for f_ in fns if f_ != '.git']
            dns[:] = [d for d in dns if d not in ('.git', '.hg')]
            for n in dns + fns:
                ents.append(os.path.relpath(os.path.join(dp, n), top))

        def ignored(rel):
            full = os.path.join(top, rel)
            repo = N if (full + '/').startswith(N + '/') else W if W and (full + '/').startswith(W + '/') else A if (full + '/').startswith(A + '/') else None
            if repo is None or full == repo:
                # the nested repository's own directory is an entry of the outer one
                repo = A if full in (N, W) else None
                if repo is None:
                    return False
            import fnmatch
            relr = os.path.relpath(full, repo)
            return any(fnmatch.fnmatch(part, pat) for pat in rules[repo] for part in relr.split('/'))
        opt = 'gitignore' if vcs == 'git' else 'hgignore'
        for frm, scope in ((('top', ''),) if vcs == 'git' else ()) + (('top/A', 'A/'), ('top/A/N', 'A/N/'), ('top/A/N, top/A/sub', None), ('top/B, top/A', None),
                                                                                     ('top/A/sub, top/A/N', None), ('top/A/N/deep, top/A/sub', None), ('top/A/sub, top/B, top/A/N/deep', None)):       # (a root above a repository: git only, the other tools look upwards)
            q = 'path from ' + ', '.join(r + ' ' + opt + (' ' + group['mode'] if group['mode'] else '') for r in frm.split(', ')) + ' into list'
            o = env.run([q], cwd=holder, timeout=20.0)
            scopes = [scope] if scope is not None else [r[4:] + '/' for r in frm.split(', ')]
            if vcs == 'hg':
                # one context per search root: the repository the root lies in (hg itself never looks into a nested repository)
                import fnmatch
                exp = []
                for sc in scopes:
                    rootdir = os.path.join(top, sc.rstrip('/'))
                    repo = N if (rootdir + '/').startswith(N + '/') else A if (rootdir + '/').startswith(A + '/') else None
                    for e in ents:
                        if not e.startswith(sc):
                            continue
                        relr = os.path.relpath(os.path.join(top, e), repo) if repo else e
                        if repo and any(fnmatch.fnmatch(part, pat) for pat in rules[repo] for part in relr.split('/')):
                            continue
                        exp.append(e)
                exp.sort()
            else:
                exp = sorted(e for e in ents if any(e.startswith(sc) for sc in scopes) and not ignored(e))
            got = sorted(os.path.relpath(os.path.normpath(os.path.join(holder, p_)), top) for p_ in o.rows()
                         if not any(part in ('.git', '.hg') for part in p_.split('/')))
            case = dict(group, frm=frm)
            r = {'case': case, 'layer': 'nested-repositories', 'nt': True, 'trans': len(ents)}
            if o.timeout or o.panicked or o.rc != 0 or o.err:
                r.update(status='viol', cls='nested:status', detail=dict(o.brief(), query=q), sig=('err',))
            elif got != exp:
                r.update(status='viol', cls='nested:%s:rows' % vcs, sig=('rows', vcs, group['mode']),
                         detail={'query': q, 'wrongly_hidden': [e for e in exp if e not in got][:8], 'wrongly_shown': [e for e in got if e not in exp][:8]})
            else:
                r.update(status='ok', sig=('nested', len(exp)))
            outs.append(r)
    finally:
        env.rmtree(holder)
    return outs


def eval_context(env, group):
    """ignore files found through odd places: an ancestor whose name is no valid UTF-8, a followed link that leaves the repository"""
    holder = env.newdir('c20x')
    outs = []
    genv = dict(os.environ, HOME=env.home, GIT_CONFIG_NOSYSTEM='1')

    def emit(sub, q, o, got, exp):
        r = {'case': dict(group, sub=sub), 'layer': 'odd-context', 'nt': True, 'trans': len(exp) + 1}
        if o.timeout or o.panicked or o.rc != 0 or o.err:
            r.update(status='viol', cls='context:status', detail=dict(o.brief(), query=q), sig=('err',))
        elif sorted(got) != sorted(exp):
            r.update(status='viol', cls='context:' + sub, sig=('rows', sub), detail={'query': q, 'got': sorted(got), 'expected': sorted(exp)})
        else:
            r.update(status='ok', sig=(sub,))
        outs.append(r)
    try:
        # (a) the ignore file lies in / above a directory with a non-UTF-8 name
        odd = os.path.join(holder.encode(), b'r\xff')
        ctx = os.path.join(odd, b'ctx')
        os.makedirs(os.path.join(ctx, b'sub'))
        os.makedirs(os.path.join(odd, b'.hg'))
        for n in (b'a.log', b'b.txt', b'sub/c.log', b'sub/d.txt'):
            open(os.path.join(ctx, n), 'w').close()
        open(os.path.join(ctx, b'.dockerignore'), 'w').write('a.log\nsub/c.log\n')
        open(os.path.join(odd, b'.hgignore'), 'w').write('syntax: glob\n*.log\n')
        for opt, exp in (('dockerignore', ['b.txt', 'sub', 'd.txt', '.dockerignore']), ('hgignore', ['b.txt', 'sub', 'd.txt', '.dockerignore'])):
            for frm in ('.', 'sub'):
                q = 'name from %s %s into list' % (frm, opt)
                o = env.run([q], cwd=os.fsdecode(ctx))
                e = [x for x in exp if frm == '.' or x == 'd.txt']
                emit('non-utf8-ancestor:' + opt, q, o, o.rows(), e)
        # (b) a followed link leads out of the repository: its rules say nothing about what lies outside
        repo, out = os.path.join(holder, 'r'), os.path.join(holder, 'out')
        core.materialise(holder, {'r': D({'in': D({'fo': F(1), 'keep': F(1)}), 'l': L('../out'), 'l2': L('../r-data')}), 'out': D({'o': D({'fo': F(1), 'x.log': F(1)}), 'tmpfile': F(1)}),
                                  'r-data': D({'y.log': F(1), 'fo': F(1), 'o': D({'z': F(1)})})})     # (a sibling whose name begins like the repository's)
        subprocess.run(['git', 'init', '-q', repo], check=True, stdout=subprocess.DEVNULL, stderr=subprocess.DEVNULL, env=genv)
        first = holder.split('/')[1]
        for rules, hidden_in in ((['/' + first], []), (['fo'], ['in/fo']), (['out/'], []), (['*.log', 'o'], [])):
            open(os.path.join(repo, '.gitignore'), 'w').write('\n'.join(rules) + '\n')
            for mode in ('', ' dfs'):
                q = 'path from r symlinks gitignore%s into list' % mode
                o = env.run([q], cwd=holder)
                exp = ['r/in', 'r/in/fo', 'r/in/keep', 'r/l', 'r/l/o', 'r/l/o/fo', 'r/l/o/x.log', 'r/l/tmpfile', 'r/.gitignore', 'r/l2', 'r/l2/y.log', 'r/l2/fo', 'r/l2/o', 'r/l2/o/z']
                exp = [e for e in exp if e[2:] not in hidden_in]
                got = [p_ for p_ in o.rows() if not any(part == '.git' for part in p_.split('/'))]
                emit('link-out-of-repository', q + '  # .gitignore: ' + ' '.join(rules), o, got, exp)
        # (c) an ignored link above the depth window is ignored all the same: nothing behind it is reported
        for tool, fname, text in (('dockerignore', '.dockerignore', 'skip\n*.tmp\n'), ('hgignore', '.hgignore', 'syntax: glob\nskip\n*.tmp\n'), ('gitignore', '.gitignore', 'skip\n*.tmp\n')):
            m = os.path.join(holder, 'm-' + tool)
            os.mkdir(m)
            core.materialise(m, {'w': D({fname: F(data=text), 'skip': L('../behind'), 'keep': L('../behind2'), 'd': D({'f': F(1), 'skip': L('../../behind'), 'g.tmp': F(1)}), 'skipdir': D({'skip': D({'s': F(1)})})}),
                                 'behind': D({'o1': F(1), 'od': D({'o2': F(1)})}), 'behind2': D({'p1': F(1), 'pd': D({'p2': F(1), 'q.tmp': F(1)})})})
            if tool == 'hgignore':
                os.mkdir(os.path.join(m, 'w', '.hg'))
            if tool == 'gitignore':
                subprocess.run(['git', 'init', '-q', os.path.join(m, 'w')], check=True, stdout=subprocess.DEVNULL, stderr=subprocess.DEVNULL, env=genv)
            # (what lies behind `keep` lies outside the repository / is named by no pattern: all of it is listed)
            full = {1: ['w/keep', 'w/d', 'w/skipdir', 'w/' + fname], 2: ['w/keep/p1', 'w/keep/pd', 'w/d/f'], 3: ['w/keep/pd/p2', 'w/keep/pd/q.tmp']}
            if tool == 'dockerignore':      # (its patterns name paths from the context directory: only the top-level `skip` and `*.tmp` are meant)
                full = {1: full[1], 2: full[2] + ['w/d/skip', 'w/d/g.tmp', 'w/skipdir/skip'], 3: full[3] + ['w/d/skip/o1', 'w/d/skip/od', 'w/skipdir/skip/s'], 4: ['w/d/skip/od/o2']}
            for mind in (1, 2, 3):
                for mode in ('', ' dfs'):
                    q = 'path from w mindepth %d symlinks %s%s into list' % (mind, tool, mode)
                    o = env.run([q], cwd=m)
                    exp = [e for lvl, es in full.items() if lvl >= mind for e in es]
                    got = [p_ for p_ in o.rows() if not any(part in ('.git', '.hg') for part in p_.split('/'))]
                    emit('ignored-link-above-window:' + tool, q, o, got, exp)
    finally:
        import shutil
        shutil.rmtree(os.path.join(holder.encode(), b'r\xff'), ignore_errors=True)
        env.rmtree(holder)
    return outs


def single(case):
    if case.get('tool') == 'context':
        return {'tool': 'context'}
    if case.get('tool') == 'nested':
        return {k: case[k] for k in ('tool', 'vcs', 'inner', 'mode')}
    if case.get('tool') == 'combo':
        return {'tool': 'combo', 'hg': case['hg'], 'docker': case['docker'], 'git': case['git']}
    return {'tool': case['tool'], 'lists': [case['list']], 'only': case['cfg']}


OPT = {'git': ('gitignore', 'nogitignore', 'gitignore'), 'docker': ('dockerignore', 'nodockerignore', 'dockerignore'),
       'hg': ('hgignore', 'nohgignore', 'hgignore')}
FILE = {'git': '.gitignore', 'docker': '.dockerignore', 'hg': '.hgignore'}


def eval_group(env, group, tier):
    if group['tool'] == 'combo':
        return eval_combo(env, group)
    if group['tool'] == 'nested':
        return eval_nested(env, group)
    if group['tool'] == 'context':
        return eval_context(env, group)
    tool = group['tool']
    holder = env.newdir('c20')
    repo = os.path.join(holder, 'repo')        # reached through a name that is full of regex metacharacters
    os.mkdir(os.path.join(holder, 'c++ (1) [x]'))
    os.mkdir(os.path.join(holder, 'c++ (1) [x]', 'w'))
    repo = os.path.join(holder, 'c++ (1) [x]', 'w', 'repo')
    os.mkdir(repo)
    os.symlink('c++ (1) [x]/w', os.path.join(holder, 'lnk'))
    core.materialise(repo, the_tree())
    # a second, independent repository / context with its own ignore file
    repo2 = os.path.join(os.path.dirname(repo), 'repo2')       # a sibling whose path has the first repository's path as a textual prefix
    os.mkdir(repo2)
    core.materialise(repo2, {'a.o': F(1), 'keep.c': F(1), 'only2': F(1), 'sub': D({'b.o': F(1), 'only2': F(1)}),
                              'sub2': D({'c.o': F(1), 'only2': F(1), 'deep': D({'only2': F(1), 'k': F(1)})})})
    outs = []
    conf0 = open(env.config_path()).read()
    try:
        if tool == 'git':
            subprocess.run(['git', 'init', '-q', repo], check=True, stdout=subprocess.DEVNULL, stderr=subprocess.DEVNULL,
                           env=dict(os.environ, HOME=env.home, GIT_CONFIG_NOSYSTEM='1'))
        if tool == 'hg':
            os.mkdir(os.path.join(repo, '.hg'))
            os.mkdir(os.path.join(repo2, '.hg'))
        if tool == 'git':
            subprocess.run(['git', 'init', '-q', repo2], check=True, stdout=subprocess.DEVNULL, stderr=subprocess.DEVNULL,
                           env=dict(os.environ, HOME=env.home, GIT_CONFIG_NOSYSTEM='1'))
        with open(os.path.join(repo2, FILE[tool]), 'w') as f:
            f.write(render(tool, [('glob', 'only2')]) if tool == 'hg' else '**/only2\n' if tool == 'docker' else 'only2\n')
        entries = sorted(p for p, n, l in core.walk_tree(the_tree()))
        for lst in group['lists']:
            with open(os.path.join(repo, FILE[tool]), 'w') as f:
                f.write(render(tool, lst))
            allents = entries + [FILE[tool]]
            if tool == 'git':
                ign = git_ignored(repo, allents)
            elif tool == 'docker':
                ign = {e for e in allents if docker_ignored(lst, e)}
            else:
                ign = {e for e in allents if hg_ignored(lst, e)}
            for cfg in CONFIGS:
                if group.get('only') is not None and list(cfg) != list(group['only']):
                    continue
                spelling, how, mode = cfg
                opt, noopt, confkey = OPT[tool]
                active = how in ('opt', 'config')
                rootopts = (' ' + opt if how == 'opt' else ' ' + noopt if how == 'config-no' else '') + (' ' + mode if mode else '')
                if spelling == 'dot':
                    cwd, frm, scope = repo, '.' + rootopts, ''
                elif spelling == 'rel':
                    cwd, frm, scope = os.path.dirname(repo), 'repo' + rootopts, ''
                elif spelling == 'abs':
                    cwd, frm, scope = holder, "'" + repo + "'" + rootopts, ''
                elif spelling == 'absln':        # absolute, through a symlinked ancestor
                    cwd, frm, scope = holder, "'" + os.path.join(holder, 'lnk', 'repo') + "'" + rootopts, ''
                elif spelling == 'absdd':        # absolute, with .. components
                    cwd, frm, scope = holder, "'" + os.path.join(repo, 'src', '..') + "'" + rootopts, ''
                elif spelling.startswith('tworepo'):
                    cwd, scope = holder, ''
                    r1, r2 = "'" + repo + "'" + rootopts, "'" + repo2 + "'" + rootopts
                    frm = (r1 + ', ' + r2) if spelling == 'tworepo' else (r2 + ', ' + r1)
                    if spelling == 'tworepo-above':    # one root above both repositories (git only: the other tools have one context)
                        if tool != 'git':
                            continue
                        frm = "'" + os.path.dirname(repo) + "'" + rootopts
                    if spelling == 'tworepo-aba':      # first repository, second, first again (two sub-directories of it)
                        scope = 'src|docs'
                        frm = "'%s'%s, %s, '%s'%s" % (os.path.join(repo, 'src'), rootopts, r2, os.path.join(repo, 'docs'), rootopts)
                    elif spelling == 'tworepo-bab':
                        scope = 'src'
                        frm = "'%s'%s, '%s'%s, '%s'%s" % (os.path.join(repo2, 'sub'), rootopts, os.path.join(repo, 'src'), rootopts, os.path.join(repo2, 'sub2'), rootopts)
                elif spelling == 'subdir':
                    cwd, frm, scope = repo, 'src' + rootopts, 'src'
                else:
                    cwd, frm, scope = repo, 'docs' + rootopts + ', src' + rootopts, 'docs|src'
                try:
                    if how in ('config', 'config-no'):
                        env.set_config(re.sub(r'(?m)^%s = .*$' % confkey, '%s = true' % confkey, conf0))
                    o = env.run(['path from ' + frm + ' into list'], cwd=cwd, timeout=20.0)
                finally:
                    if how in ('config', 'config-no'):
                        env.set_config(conf0)
                scopes = scope.split('|') if scope else ['']
                inscope = [e for e in allents if any((not s) or e.startswith(s + '/') for s in scopes)]
                exp = sorted(e for e in inscope if not (active and e in ign))
                if spelling.startswith('tworepo'):
                    exp = sorted(exp + ['@2/' + x[3:] for x in []] + [])
                got = []
                extra2 = []
                if spelling.startswith('tworepo'):
                    e2 = ['a.o', 'keep.c', 'only2', 'sub', 'sub/b.o', 'sub/only2', 'sub2', 'sub2/c.o', 'sub2/only2', 'sub2/deep', 'sub2/deep/only2',
                          'sub2/deep/k', FILE[tool]]
                    if spelling == 'tworepo-bab':
                        e2 = [e for e in e2 if e.startswith(('sub/', 'sub2/'))]
                    extra2 = sorted('@2/' + e for e in e2 if not (active and e.endswith('only2')))
                for p in o.rows():
                    ap = os.path.realpath(os.path.dirname(os.path.normpath(os.path.join(cwd, p)))) + '/' + os.path.basename(p)
                    if spelling == 'tworepo-above' and ap in (repo, repo2):
                        continue
                    if ap.startswith(repo2 + '/'):
                        r2_ = os.path.relpath(ap, repo2)
                        if not (r2_ == '.git' or r2_.startswith('.git/') or r2_ == '.hg'):
                            got.append('@2/' + r2_)
                        continue
                    rel = os.path.relpath(ap, repo)
                    if rel == '.git' or rel.startswith('.git/') or rel == '.hg':
                        continue
                    got.append(rel)
                got.sort()
                exp = sorted(exp + extra2)
                case = {'tool': tool, 'list': lst, 'cfg': list(cfg)}
                nign = len([e for e in inscope if e in ign])
                r = {'case': case, 'layer': '%s:%s:%s' % (tool, spelling, how), 'nt': active and 0 < nign < len(inscope), 'trans': len(inscope)}
                warned = tool == 'hg' and any(a[0] == '@unknown' for a in lst) and active and b'syntax' in o.err      # an unknown syntax name is reported
                if o.timeout or o.panicked or o.rc != 0 or (o.err and not warned):
                    r.update(status='viol', cls='%s:status' % tool, detail=dict(o.brief(), file=render(tool, lst), frm=frm), sig=('err',))
                elif got != exp:
                    wrongly_hidden = [e for e in exp if e not in got]
                    wrongly_shown = [e for e in got if e not in exp]
                    kind = 'hidden-but-not-ignored' if wrongly_hidden and not wrongly_shown else 'shown-but-ignored' if wrongly_shown and not wrongly_hidden else 'both'
                    r.update(status='viol', cls='%s:%s:%s:%s' % (tool, spelling, how, kind), sig=('rows', tool, spelling, kind),
                             detail={'file': render(tool, lst), 'from': frm, 'cwd': os.path.relpath(cwd, holder), 'wrongly_hidden': wrongly_hidden[:8],
                                     'wrongly_shown': wrongly_shown[:8]})
                else:
                    r.update(status='ok', sig=tuple(got))
                outs.append(r)
    finally:
        env.rmtree(holder)
    return outs
