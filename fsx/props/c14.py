"""C14 Size literals and size formatting follow the documented unit tables."""
import itertools
import re
from fractions import Fraction

from fsx import core
from fsx import matchers as mt
from fsx.core import F

ID = 'C14'
LEVEL = 'exploration'
RULE = ('parsing: every unit {none,b,k,kb,kib,m,mb,mib,g,gb,gib,t,tb,tib} x every letter-case variant x numbers '
        '{1,2,5,10,0.5,1.5,2.25,.5,2.,.25,01,1.50} (integral byte counts only) x {=,<,>,<=,>=,!=} against sparse files of size n*mult-1, '
        'n*mult, n*mult+1; formatting: every specifier of the grammar precision {none,%.0..%.3} x {space,none} x every '
        'subset of {c,d,s} x unit {none,b,k,kb,kib,..,tb,tib} x a logarithmic size grid with +-1 neighbours, checked '
        'against the documented example table, the unit/base/precision grammar, half-unit accuracy, monotonicity and '
        'round trip; fsize under several default_file_size_format settings, also for zip members; every ordered pair of 18 specifiers in one query'
        ' plus a list of literals with fractional (3.0b, 0.3k), signed (-1k), over-long (16+ fraction digits, 21+ integer digits) and saturating values, and literals as operands of arithmetic (0.3k * 10), x six operators x both operand orders, compared exactly against 24 file sizes')
ASSUMPTIONS = ['the unit x number grid uses whole byte counts; a separate list of literals with fractional, signed, over-long and saturating values is compared exactly (fraction digits beyond the 18th are zeros)',
               'a fixed unit without explicit precision is checked for accuracy/monotonicity only (default precision undocumented)',
               'integral quotients may be printed without decimals', 'the displayed quotient is a double: an error of one rounding (2^-52 relative) on top of the displayed precision is accepted']
BUDGET = {'quick': 50, 'thorough': 900}

UNITS = ['', 'b', 'k', 'kb', 'kib', 'm', 'mb', 'mib', 'g', 'gb', 'gib', 't', 'tb', 'tib']
NUMS = ['1', '2', '5', '10', '0.5', '1.5', '2.25', '.5', '2.', '.25', '01', '1.50',
        # decimal fractions that have no exact binary form (number x multiplier is still a whole number of bytes in the decimal units)
        '2.01', '1.001', '64.1', '4.02', '32.3', '0.007']
NUMS_T = NUMS + ['0', '3', '7', '100', '1023', '1024', '0.25', '0.75', '12.5', '999', '1000', '0.125']
OPS = [('=', lambda a, b: a == b), ('<', lambda a, b: a < b), ('>', lambda a, b: a > b), ('<=', lambda a, b: a <= b),
       ('>=', lambda a, b: a >= b), ('!=', lambda a, b: a != b)]
GRID = sorted({x for k in range(0, 51, 10) for x in (2 ** k - 1, 2 ** k, 2 ** k + 1)} | {x for k in (3, 6, 9, 12, 15) for x in (10 ** k - 1, 10 ** k, 10 ** k + 1)} | {0, 1, 2, 999, 1000, 1001, 1023, 1024, 1025, 1500, 1536, 2047, 2048, 10 ** 6 - 1, 10 ** 6, 10 ** 6 + 1,
               2 ** 20 - 1, 2 ** 20, 2 ** 20 + 1, 1678123, 123456789, 10 ** 9 - 1, 10 ** 9, 10 ** 9 + 1, 2 ** 30 - 1, 2 ** 30,
               2 ** 30 + 1, 5 * 2 ** 30 + 7, 10 ** 12 - 1, 10 ** 12, 10 ** 12 + 1, 2 ** 40 - 1, 2 ** 40, 2 ** 40 + 1, 3 * 10 ** 12 + 5})

# literals whose byte count is no whole number, carries a sign, is written with more digits than a double holds, or
# exceeds every size: (literal, exact value as text of a fraction or 'huge'); the comparison with a size is still exact
XLITS = [('3.0b', '3'), ('1.5b', '3/2'), ('0.75B', '3/4'), ('.5b', '1/2'), ('2.b', '2'),
         ('-1k', '-1024'), ('-0.5kb', '-500'), ('-1KiB', '-1024'), ('-3b', '-3'), ('-3', '-3'), ('-0.5', '-1/2'), ('+1k', '1024'), ('+3', '3'),
         ('0.3k', '1536/5'), ('1.4995k', None), ('0.0005k', None), ('0.3kb', '300'), ('0.0015kb', '3/2'), ('2.9995kib', None),
         ('1.0000000000000000k', '1024'), ('1.5000000000000000k', '1536'), ('000000000000000000001k', '1024'),
         ('0.3000000000000000000000k', '1536/5'), ('3.000000000000000000b', '3'), ('00000000000000000000003', '3'),
         ('1.0000000000000000009k', None), ('0.0000000000000000009t', None), ('1.4999999999999999999999k', None), ('2.99999999999999999999999k', None),
         ('15.000000000000001k', None), ('14.999999999999999k', None), ('2.9999999999999999k', None), ('3.0000000000000001k', None),
         ('1000000000000.000000000000000t', 'huge'), ('1237940039285.380274899124224t', 'huge'), ('99999999999999999999999999k', 'huge'),
         ('99999999999999999999.999999999999999tib', 'huge'), ('340282366920938463463374607431768211456b', 'huge'), ('18446744073709551616', 'huge'),
         ('18446744073709551615k', 'huge')]
# a literal as operand of arithmetic keeps its fraction of a byte: (expression, exact value)
XEXPRS = [('0.3k * 10', '3072'), ('0.1k + 2.9k', '3072'), ('0.3 * 1k', '1536/5'), ('1.5b * 2', '3'), ('3.5k - 0.5k', '3072'), ('0.3k * 5', '1536'),
          ('1.5k / 1', '1536'), ('0.75b + 0.25b', '1'),
          # written without blanks, and with signed literals
          ('1KiB*2', '2048'), ('2*1Kb', '2000'), ('1MiB/1KiB', '1024'), ('1kB+24', '1024'), ('3Kib-1kIb', '2048'),
          ('1k*2', '2048'), ('2*1k', '2048'), ('1k+1', '1025'), ('1.5k-512', '1024'), ('3m/1k', '3072'), ('2k + -1k', '1024'), ('-1k + 2k', '1024'), ('2k - -1k', '3072'), ('1k*3', '3072')]
# two literals in one condition whose spellings differ only in the decimal point, the letter case or a blank
XPAIRS = [('2.5k', '25k'), ('25k', '2.5k'), ('1.5k', '15k'), ('1.0k', '10k'), ('0.3k', '3k'), ('1.5kb', '15kb'), ('3b', '3k'), ('3k', '3kb'), ('3kib', '3kb'), ('.3k', '3k'), ('0.30k', '0.3k'),
          ('1.536k', '1536'), ('1536', '1.5k'), ('1K', '1k'), ('1 k', '1kb')]
XSIZES = [0, 1, 2, 3, 4, 299, 300, 301, 306, 307, 308, 1023, 1024, 1025, 1535, 1536, 1537, 3070, 3071, 3072, 3073, 15359, 15360, 15361]


def xvalue(lit, val):
    if val == 'huge':
        return Fraction(10) ** 60
    if val is not None:
        return Fraction(val)
    m = re.fullmatch(r'([+-]?[\d.]+)([a-zA-Z]*)', lit)
    return Fraction(m.group(1)) * mt.UNITS[m.group(2).lower()]


DOC_TABLE = [(None, '1.60MiB'), (' ', '1.60 MiB'), ('%.0', '2MiB'), ('%.1', '1.6MiB'), ('%.2', '1.60MiB'), ('%.2 ', '1.60 MiB'),
             ('%.2 d', '1.68 MB'), ('%.2 c', '1.60 MB'), ('%.2 k', '1638.79 KiB'), ('%.2 ck', '1638.79 KB'),
             ('%.0 ck', '1639 KB'), ('%.0 kb', '1678 KB'), ('%.0kb', '1678KB'), ('%.0s', '2M'), ('%.0 s', '2 M')]


def bounds(tier):
    return {'units': len(UNITS), 'numbers': NUMS if tier == 'quick' else NUMS_T, 'specifiers': len(list(specs(tier))), 'grid': len(GRID)}


def case_variants(u):
    if not u:
        return ['']
    return sorted({''.join(c) for c in itertools.product(*[(ch.lower(), ch.upper()) for ch in u])})


def literal_cases(tier='quick'):
    for u in UNITS:
        for n in (NUMS if tier == 'quick' else NUMS_T):
            v = Fraction(n) * mt.UNITS[u]
            if v.denominator != 1 or v + 1 > 15 * 1024 ** 4:
                continue        # ext4 cannot hold a file of that size
            if '.' in n and u in ('', 'b'):
                continue        # a byte count is written as an integer; decimal notation belongs to the larger units
            for cv in case_variants(u):
                yield n + cv, int(v)


def size_files(tier='quick'):
    vals = set()
    for _, v in literal_cases(tier):
        vals.update(x for x in (v - 1, v, v + 1) if x >= 0)
    return sorted(vals)


def specs(tier='quick'):
    for prec in ((None, 0, 1, 2, 3) if tier == 'quick' else (None, 0, 1, 2, 3, 4, 5, 6)):
        for space in ('', ' '):
            for r in range(4):
                for flags in itertools.combinations('cds', r):
                    for unit in UNITS:
                        yield {'prec': prec, 'space': space, 'flags': ''.join(flags), 'unit': unit}


def spec_text(s):
    return ('%%.%d' % s['prec'] if s['prec'] is not None else '') + s['space'] + s['flags'] + s['unit']


def groups(tier, seed):
    lits = list(literal_cases(tier))
    if tier == 'quick':
        # all units and case variants, numbers rotated so every number meets every unit
        pass
    for i in range(0, len(lits), 40):
        yield {'kind': 'parse', 'lits': lits[i:i + 40], 'tier': tier}
    yield {'kind': 'parse-x', 'lits': [list(x) for x in XLITS], 'exprs': [list(x) for x in XEXPRS]}
    sp = list(specs(tier))
    for i in range(0, len(sp), 40):
        yield {'kind': 'format', 'specs': sp[i:i + 40]}
    yield {'kind': 'doc'}
    yield {'kind': 'fsize'}
    yield {'kind': 'fsize-archive'}
    pool = ['', ' ', '%.2', '%.2 ', '%.0', '%.0 ', '%.0kb', '%.0 kb', '%.0 KB', '%.1d', '%.1 d', '%.1c', '%.1s', '%.1 s', 'k', ' k', '%.3 ck', '%.3ck']
    pairs = [(a, b_) for a in pool for b_ in pool if a != b_]
    for i in range(0, len(pairs), 40):
        yield {'kind': 'specpair', 'pairs': pairs[i:i + 40]}


def single(case):
    k = case['kind']
    if k == 'parse':
        return {'kind': 'parse', 'lits': [[case['lit'], case['bytes']]], 'op': case['op'], 'tier': case.get('tier', 'quick')}
    if k == 'parse-x' and case.get('pair'):
        return {'kind': 'parse-x', 'lits': [], 'exprs': []}
    if k == 'parse-x':
        return {'kind': 'parse-x', 'lits': [[case['lit'], case['value']]] if not case.get('expr') else [], 'exprs': [[case['lit'], case['value']]] if case.get('expr') else [],
                'op': case['op'], 'mirror': case['mirror']}
    if k == 'format':
        return {'kind': 'format', 'specs': [case['spec']]}
    if k == 'specpair':
        return {'kind': 'specpair', 'pairs': [case['pair']]}
    return {'kind': k}


def expected_unit(s, scale_idx):
    unit = s['unit']
    if 'd' in s['flags']:
        base = 'dec'
    elif 'c' in s['flags']:
        base = 'conv'
    elif unit in ('kb', 'mb', 'gb', 'tb'):
        base = 'dec'
    else:
        base = 'bin'
    names = {'bin': ['B', 'KiB', 'MiB', 'GiB', 'TiB', 'PiB', 'EiB'], 'dec': ['B', 'KB', 'MB', 'GB', 'TB', 'PB', 'EB'],
             'conv': ['B', 'KB', 'MB', 'GB', 'TB', 'PB', 'EB']}[base]
    divider = 1000 if base == 'dec' else 1024
    return base, divider, names


def check_render(s, size, text):
    """returns None or a reason string"""
    m = re.fullmatch(r'(\d+)(?:\.(\d+))?( ?)([A-Za-z]+)', text)
    if not m:
        return 'shape'
    ip, fp, sp, unit = m.groups()
    if (sp == ' ') != (s['space'] == ' '):
        return 'space'
    base, divider, names = expected_unit(s, None)
    fixed = {'': None, 'b': 0, 'k': 1, 'kb': 1, 'kib': 1, 'm': 2, 'mb': 2, 'mib': 2, 'g': 3, 'gb': 3, 'gib': 3,
             't': 4, 'tb': 4, 'tib': 4}[s['unit']]
    if fixed is None:
        k = 0
        while size >= divider ** (k + 1):
            k += 1
    else:
        k = fixed
    uname = names[k]
    if 's' in s['flags']:
        uname = uname.replace('iB', '') if uname.endswith('iB') else (uname[0] if len(uname) == 2 else uname)
    if unit != uname:
        return 'unit(%s!=%s)' % (unit, uname)
    exact = Fraction(size, divider ** k)
    dec = len(fp) if fp else 0
    shown = Fraction(ip + ('.' + fp if fp else ''))
    # half a unit of the last displayed digit, plus the rounding error of one double-precision division
    if abs(shown - exact) > Fraction(1, 2 * 10 ** dec) + Fraction(1, 10 ** 12) + abs(exact) * Fraction(1, 2 ** 51):
        return 'accuracy(shown %s, exact %s)' % (text, float(exact))
    prec = s['prec']
    if prec is not None or fixed is None:
        want = 2 if prec is None else prec
        if dec not in (want, 0):
            return 'precision(%d decimals, spec %s)' % (dec, want)
        if dec == 0 and want != 0 and exact.denominator != 1 and round(float(exact), want) != int(shown):
            return 'precision-dropped'
    return None


def eval_group(env, group, tier):
    kind = group['kind']
    outs = []
    if kind == 'parse':
        root = env.newdir('c14')
        sizes = size_files(group.get('tier', tier))
        core.materialise(root, {'s%d' % v: F(v, sparse=True) for v in sizes})
        try:
            for lit, nbytes in group['lits']:
                for opname, opf in OPS:
                    if group.get('op') and opname != group['op']:
                        continue
                    q = 'name from . where size %s %s into list' % (opname, lit)
                    o = env.run([q], cwd=root)
                    exp = sorted('s%d' % v for v in sizes if opf(v, nbytes))
                    case = {'kind': 'parse', 'lit': lit, 'bytes': nbytes, 'op': opname, 'query': q, 'tier': group.get('tier', tier)}
                    r = {'case': case, 'nt': 0 < len(exp) < len(sizes), 'layer': 'parse'}
                    rows = o.rows()
                    if o.timeout or o.rc != 0 or o.err:
                        r.update(status='viol', cls='parse-status', detail=dict(o.brief(), query=q), sig=('err',))
                    elif sorted(rows) != exp:
                        unit = re.sub(r'[\d.]', '', lit).lower()
                        r.update(status='viol', cls='unit-' + (unit or 'none'), sig=('rows', unit),
                                 detail={'query': q, 'bytes': nbytes, 'n_got': len(rows), 'n_expected': len(exp)})
                    else:
                        r.update(status='ok', sig=(nbytes, opname))
                    outs.append(r)
        finally:
            env.rmtree(root)
    elif kind == 'parse-x':
        root = env.newdir('c14x')
        core.materialise(root, {'s%d' % v: F(v, sparse=True) for v in XSIZES})
        mirror_of = {'=': '=', '!=': '!=', '<': '>', '>': '<', '<=': '>=', '>=': '<='}
        try:
            for la, lb in (XPAIRS if 'op' not in group else []):
                va, vb = xvalue(la.replace(' ', ''), None), xvalue(lb.replace(' ', ''), None)
                qa, qb = ("'%s'" % la if ' ' in la else la), ("'%s'" % lb if ' ' in lb else lb)
                for cond, f in (('size >= %s and size <= %s' % (qa, qb), lambda v: va <= v <= vb), ('size between %s and %s' % (qa, qb), lambda v: va <= v <= vb),
                                ('size < %s or size > %s' % (qa, qb), lambda v: v < va or v > vb), ('size = %s or size = %s' % (qa, qb), lambda v: v == va or v == vb),
                                ('size != %s and size <= %s' % (qb, qa), lambda v: v != vb and v <= va)):
                    q = 'name from . where %s into list' % cond
                    o = env.run([q], cwd=root)
                    exp = sorted('s%d' % v for v in XSIZES if f(v))
                    case = {'kind': 'parse-x', 'pair': [la, lb], 'query': q}
                    r = {'case': case, 'nt': True, 'layer': 'literal-pairs', 'trans': len(XSIZES)}
                    if o.timeout or o.rc != 0 or o.err:
                        r.update(status='viol', cls='parse-x-status', detail=dict(o.brief(), query=q), sig=('err',))
                    elif sorted(o.rows()) != exp:
                        r.update(status='viol', cls='literal-pair-rows', sig=('pair', la, lb), detail={'query': q, 'got': sorted(o.rows())[:8], 'expected': exp[:8]})
                    else:
                        r.update(status='ok', sig=(la, lb, cond[:12]))
                    outs.append(r)
            for k_ in (('1k', 1024), ('0.5k', 512), ('1kb', 1000), ('3b', 3)) if 'op' not in group else ():
                lit, v = k_
                for cond, f in (('size - 1536 < %s and size - 1536 > -%s' % (lit, lit), lambda x: -v < x - 1536 < v), ('size > -%s and size < %s' % (lit, lit), lambda x: -v < x < v),
                                ('size - 1536 between -%s and %s' % (lit, lit), lambda x: -v <= x - 1536 <= v), ('size - 3072 > %s or size - 3072 < -%s' % (lit, lit), lambda x: x - 3072 > v or x - 3072 < -v),
                                ('-%s < size - 1024 and %s > size - 1024' % (lit, lit), lambda x: -v < x - 1024 < v)):
                    q = 'name from . where %s into list' % cond
                    o = env.run([q], cwd=root)
                    exp = sorted('s%d' % x for x in XSIZES if f(x))
                    r = {'case': {'kind': 'parse-x', 'pair': ['-' + lit, lit], 'query': q}, 'nt': True, 'layer': 'signed-literal-pairs', 'trans': len(XSIZES)}
                    if o.timeout or o.rc != 0 or o.err:
                        r.update(status='viol', cls='parse-x-status', detail=dict(o.brief(), query=q), sig=('err',))
                    elif sorted(o.rows()) != exp:
                        r.update(status='viol', cls='signed-literal-pair-rows', sig=('spair', lit), detail={'query': q, 'got': sorted(o.rows())[:8], 'expected': exp[:8]})
                    else:
                        r.update(status='ok', sig=('spair', lit, cond[:14]))
                    outs.append(r)
            for is_expr, items in ((False, group['lits']), (True, group['exprs'])):
                for lit, val in items:
                    x = xvalue(lit, val)
                    for opname, opf in OPS:
                        if group.get('op') and opname != group['op']:
                            continue
                        for mirror in (False, True):
                            if 'mirror' in group and mirror != group['mirror']:
                                continue
                            if mirror and lit[0] in '+.' :
                                continue        # a query cannot start its condition with these spellings
                            cond = '%s %s size' % (lit, mirror_of[opname]) if mirror else 'size %s %s' % (opname, lit)
                            q = 'name from . where %s into list' % cond
                            o = env.run([q], cwd=root)
                            exp = sorted('s%d' % v for v in XSIZES if opf(v, x))
                            case = {'kind': 'parse-x', 'lit': lit, 'value': val, 'op': opname, 'mirror': mirror, 'expr': is_expr, 'query': q}
                            r = {'case': case, 'nt': True, 'layer': 'literal-in-arithmetic' if is_expr else 'inexact-literal', 'trans': len(XSIZES)}
                            rows = o.rows()
                            if o.timeout or o.rc != 0 or o.err:
                                r.update(status='viol', cls='parse-x-status', detail=dict(o.brief(), query=q), sig=('err',))
                            elif sorted(rows) != exp:
                                r.update(status='viol', cls='parse-x-rows', sig=('rows', lit),
                                         detail={'query': q, 'value': str(x), 'got': sorted(rows)[:8], 'expected': exp[:8], 'n_got': len(rows), 'n_expected': len(exp)})
                            else:
                                r.update(status='ok', sig=(lit, opname, mirror))
                            outs.append(r)
        finally:
            env.rmtree(root)
    elif kind == 'format':
        for s in group['specs']:
            st = spec_text(s)
            cols = ', '.join("format_size(%d, '%s')" % (n, st) if st else 'format_size(%d)' % n for n in GRID)
            o = env.run([cols + ' into list'], cwd=env.base)
            case = {'kind': 'format', 'spec': s, 'text': st}
            r = {'case': case, 'nt': True, 'layer': 'format', 'trans': len(GRID)}
            rows = o.rows(len(GRID))
            if o.timeout or o.rc != 0 or o.err or not rows or len(rows) != 1:
                r.update(status='viol', cls='format-status', detail=dict(o.brief(), spec=st), sig=('err',))
                outs.append(r)
                continue
            vals = rows[0]
            bad = None
            for n, t in zip(GRID, vals):
                why = check_render(s, n, t)
                if why:
                    bad = (n, t, why)
                    break
            if not bad:
                # monotone: compare rendered magnitudes
                mags = []
                for n, t in zip(GRID, vals):
                    m = re.fullmatch(r'([\d.]+) ?([A-Za-z]+)', t)
                    base, divider, names = expected_unit(s, None)
                    u = m.group(2)
                    idx = next(i for i, nm in enumerate(names) if nm == u or nm.replace('iB', '') == u or (len(nm) == 2 and nm[0] == u))
                    mags.append(Fraction(m.group(1)) * divider ** idx)
                for i in range(len(mags) - 1):
                    if mags[i] > mags[i + 1]:
                        bad = (GRID[i + 1], vals[i + 1], 'not-monotone after %s' % vals[i])
                        break
            if bad:
                r.update(status='viol', cls='format-' + bad[2].split('(')[0].split(' ')[0], sig=('fmt', bad[2][:12]),
                         detail={'spec': st, 'size': bad[0], 'rendered': bad[1], 'why': bad[2]})
            else:
                r.update(status='ok', sig=tuple(vals[:8]))
            outs.append(r)
    elif kind == 'specpair':
        # differential: a specifier's rendering next to another specifier equals its rendering alone
        alone = {}
        def col(sp, n):
            return "format_size(%d, '%s')" % (n, sp) if sp else 'format_size(%d)' % n
        for a, b_ in group['pairs']:
            for sp in (a, b_):
                if sp not in alone:
                    o = env.run([', '.join(col(sp, n) for n in (1678123, 1024, 999)) + ' into list'], cwd=env.base)
                    alone[sp] = (o.rows(3) or [None])[0]
            o = env.run([', '.join(col(sp, n) for n in (1678123, 1024, 999) for sp in (a, b_)) + ' into list'], cwd=env.base)
            rows = o.rows(6)
            r = {'case': {'kind': 'specpair', 'pair': [a, b_]}, 'nt': True, 'layer': 'specpair'}
            exp = None
            if alone[a] and alone[b_]:
                exp = tuple(x for t in zip(alone[a], alone[b_]) for x in t)
            if o.rc != 0 or not rows or rows[0] != exp:
                r.update(status='viol', cls='specifier-depends-on-neighbour', detail={'pair': [a, b_], 'got': rows, 'alone': [alone[a], alone[b_]]}, sig=('pair',))
            else:
                r.update(status='ok', sig=exp)
            outs.append(r)
    elif kind == 'fsize-archive':
        import io, zipfile
        root = env.newdir('c14z')
        try:
            b2 = io.BytesIO()
            with zipfile.ZipFile(b2, 'w') as z:
                for nm, n in (('m1536', 1536), ('m1678123', 1678123), ('m0', 0)):
                    z.writestr(zipfile.ZipInfo(nm, (2020, 1, 2, 3, 4, 6)), b'z' * n)
            core.materialise(root, {'z.zip': F(data=b2.getvalue()), 'plain1536': F(1536)})
            for spec in (None, '%.1 ', '%.0 d', '%.2ck', '%.3 s', ' kb'):
                conf = open(env.config_path()).read()
                try:
                    if spec is not None:
                        env.set_config(re.sub(r'(?m)^default_file_size_format.*$', '', conf) + "\ndefault_file_size_format = '%s'\n" % spec)
                    o = env.run(['name, size, fsize, hsize from . archives into list'], cwd=root)
                finally:
                    env.set_config(conf)
                rows = o.rows(4) or []
                sp = parse_spec(spec or '')
                bad = None
                if o.rc != 0 or len(rows) != 5:
                    bad = ('status', o.brief())
                for name, size, fs, hs in rows:
                    why = check_render(sp, int(size), fs)
                    if why or fs != hs:
                        bad = (name, size, fs, hs, why)
                r = {'case': {'kind': 'fsize-archive', 'spec': spec}, 'nt': True, 'layer': 'fsize-archive', 'trans': len(rows)}
                if bad:
                    r.update(status='viol', cls='fsize-archive-member', detail={'spec': spec, 'bad': bad}, sig=('fsz',))
                else:
                    r.update(status='ok', sig=tuple(x[2] for x in rows))
                outs.append(r)
            # size literals against archive members: a member's size is its own, not its archive's
            b3 = io.BytesIO()
            with zipfile.ZipFile(b3, 'w', zipfile.ZIP_STORED) as z:
                z.writestr(zipfile.ZipInfo('tiny6', (2020, 1, 2, 3, 4, 6)), b'tiny!!')
                z.writestr(zipfile.ZipInfo('pad300k', (2020, 1, 2, 3, 4, 6)), b'p' * 300000)
            b4 = io.BytesIO()
            with zipfile.ZipFile(b4, 'w', zipfile.ZIP_DEFLATED) as z:
                z.writestr(zipfile.ZipInfo('huge1m', (2020, 1, 2, 3, 4, 6)), b'h' * 1048576, zipfile.ZIP_DEFLATED)
            core.materialise(root, {'big.zip': F(data=b3.getvalue()), 'small.zip': F(data=b4.getvalue())})
            sizes = {'z.zip': len(b2.getvalue()), 'plain1536': 1536, 'm1536': 1536, 'm1678123': 1678123, 'm0': 0, 'big.zip': len(b3.getvalue()),
                     'small.zip': len(b4.getvalue()), 'tiny6': 6, 'pad300k': 300000, 'huge1m': 1048576}
            for cond, f in (('size > 100k', lambda v: v > 102400), ('size < 1kb', lambda v: v < 1000), ('size >= 1m', lambda v: v >= 1048576),
                            ('size between 1k and 2m', lambda v: 1024 <= v <= 2097152), ('size = 6', lambda v: v == 6), ('size <= 1.5k', lambda v: v <= 1536),
                            ('size gt 0.25mb and size lt 1.2mib', lambda v: 250000 < v < 1258291), ('size != 300000', lambda v: v != 300000),
                            ("size > 1k and name like '%1%'", None)):
                q = 'name from . archives where %s into list' % cond
                o = env.run([q], cwd=root)
                got = sorted(x.rsplit('] ', 1)[-1] for x in o.rows())
                if f is None:
                    exp = sorted(n for n, v in sizes.items() if v > 1024 and '1' in n)
                else:
                    exp = sorted(n for n, v in sizes.items() if f(v))
                r = {'case': {'kind': 'fsize-archive', 'cond': cond}, 'nt': 0 < len(exp) < len(sizes), 'layer': 'size-literal-archive', 'trans': len(sizes)}
                if o.rc != 0 or o.err or got != exp:
                    r.update(status='viol', cls='size-literal-archive-member', sig=('szarc',),
                             detail={'query': q, 'missing': sorted(set(exp) - set(got)), 'extra': sorted(set(got) - set(exp)), 'err': o.brief()['err']})
                else:
                    r.update(status='ok', sig=(cond, len(exp)))
                outs.append(r)
        finally:
            env.rmtree(root)
    elif kind == 'doc':
        for spec, want in DOC_TABLE:
            arg = "format_size(1678123, '%s')" % spec if spec is not None else 'format_size(1678123)'
            o = env.run([arg + ' into list'], cwd=env.base)
            rows = o.rows()
            r = {'case': {'kind': 'doc', 'spec': spec}, 'nt': True, 'layer': 'doc-table'}
            if rows != [want]:
                r.update(status='viol', cls='doc-table', detail={'spec': spec, 'want': want, 'got': rows, 'err': o.brief()['err']}, sig=('doc',))
            else:
                r.update(status='ok', sig=(want,))
            outs.append(r)
    elif kind == 'fsize':
        root = env.newdir('c14f')
        core.materialise(root, {'s%d' % v: F(v, sparse=True) for v in GRID if v < 15 * 1024 ** 4})
        try:
            for spec in (None, '%.1 ', '%.0 d', '%.2ck', '%.3 s', ' kb'):
                conf = open(env.config_path()).read()
                try:
                    if spec is not None:
                        env.set_config(re.sub(r'(?m)^default_file_size_format.*$', '', conf) + "\ndefault_file_size_format = '%s'\n" % spec)
                    o = env.run(['name, fsize, hsize from . into list'], cwd=root)
                    # FORMAT_SIZE next to fsize: each value is what it is alone (the configured default belongs to fsize only)
                    alone = {}
                    for e_ in ('format_size(size)', "format_size(size, '%.1 d')", 'fsize'):
                        oa = env.run(['name, %s from . into list' % e_], cwd=root)
                        alone[e_] = dict(oa.rows(2) or [])
                    comp = []
                    for cols in (['fsize', 'format_size(size)'], ['format_size(size)', 'fsize'], ['hsize', 'format_size(size)', "format_size(size, '%.1 d')"],
                                 ["format_size(size, '%.1 d')", 'fsize', 'format_size(size)']):
                        oc = env.run(['name, %s from . into list' % ', '.join(cols)], cwd=root)
                        for row in oc.rows(1 + len(cols)) or [('?',) * (1 + len(cols))]:
                            for c_, v_ in zip(cols, row[1:]):
                                want_ = alone['fsize' if c_ == 'hsize' else c_].get(row[0])
                                if v_ != want_:
                                    comp.append((', '.join(cols), row[0], c_, v_, want_))
                finally:
                    env.set_config(conf)
                rc_ = {'case': {'kind': 'fsize', 'spec': spec, 'company': True}, 'nt': True, 'layer': 'fsize-company', 'trans': 4}
                if comp:
                    rc_.update(status='viol', cls='format-size-next-to-fsize', sig=('fsize-company',),
                               detail={'spec': spec, 'select': comp[0][0], 'row': comp[0][1], 'column': comp[0][2], 'got': comp[0][3], 'alone': comp[0][4]})
                else:
                    rc_.update(status='ok', sig=('company', spec))
                outs.append(rc_)
                rows = o.rows(3) or []
                s = parse_spec(spec or '')
                r = {'case': {'kind': 'fsize', 'spec': spec}, 'nt': True, 'layer': 'fsize', 'trans': len(rows)}
                bad = None
                if o.rc != 0 or len(rows) != len([v for v in GRID if v < 15 * 1024 ** 4]):
                    bad = ('status', o.brief())
                for name, fs, hs in rows:
                    why = check_render(s, int(name[1:]), fs)
                    if why or fs != hs:
                        bad = (name, fs, hs, why)
                if bad:
                    r.update(status='viol', cls='fsize', detail={'spec': spec, 'bad': bad}, sig=('fsize',))
                else:
                    r.update(status='ok', sig=tuple(x[1] for x in rows[:6]))
                outs.append(r)
        finally:
            env.rmtree(root)
    return outs


def parse_spec(st):
    m = re.fullmatch(r'(?:%\.(\d+))?( ?)([a-z]*)', st)
    letters = m.group(3)
    flags = ''.join(c for c in 'cds' if c in letters)
    unit = ''.join(c for c in letters if c not in 'cds')
    return {'prec': int(m.group(1)) if m.group(1) else None, 'space': m.group(2), 'flags': flags, 'unit': unit}
