"""C13 Date literals denote intervals; comparisons partition time consistently."""
import datetime as dt
from zoneinfo import ZoneInfo

from fsx import core
from fsx.core import F

ID = 'C13'
LEVEL = 'exploration'
RULE = ('literals at day/hour/minute/second precision x separators - and : x quoted/unquoted x 1- and 2-digit fields, at '
        'ordinary days, month ends, year end, 29 Feb and the two DST-change days; for each literal the mtime grid '
        '{a-1,a,a+1,mid,b-1,b,b+1} (+- one day) x operators = != < > <= >= (all spellings) and ===/!== at full precision x '
        'TZ in {UTC, Europe/Berlin, Asia/Kolkata} (thorough: + New_York, Lord_Howe (30-minute DST), Chatham (+12:45), Kathmandu (+5:45), St_Johns (-3:30) and every month end / month start of 2020 and 2021); relative literals today, yesterday, -7..+1 under a controlled clock at '
        'midnight, noon, 23:59:59, month end, year end and DST days; the modified column text, incl. times before 1970 with a fractional part (the second they fall in is the floor); non-trivial = the condition '
        'accepts some but not all grid points')
ASSUMPTIONS = ['comparisons are between local wall-clock seconds (the statement\'s "local-time seconds")',
               'a positive day offset is written quoted (\'+1\'): an unquoted + is an arithmetic sign', 'clock owned through the LD_PRELOAD shim (FSX_NOW); zone through TZ; literals inside a DST gap are not generated']
BUDGET = {'quick': 50, 'thorough': 600}
ZONES = ['UTC', 'Europe/Berlin', 'Asia/Kolkata']
BASES = [(2021, 3, 4, 5, 6, 7), (2021, 4, 30, 23, 59, 59), (2020, 12, 31, 23, 59, 59), (2020, 2, 29, 12, 0, 0),
         (2021, 1, 1, 0, 0, 0), (2021, 3, 28, 12, 30, 0), (2021, 10, 31, 1, 30, 0), (2019, 7, 9, 8, 5, 3),
         # years outside 1970..2999 (an unquoted literal must still be a date, not a subtraction)
         (1969, 12, 31, 10, 20, 30), (1950, 6, 15, 12, 0, 0), (2400, 2, 29, 1, 2, 3)]
OPS = {'=': ['=', '==', 'eq'], '!=': ['!=', '<>', 'ne'], '<': ['<', 'lt'], '>': ['>', 'gt'], '<=': ['<=', 'lte', 'le'],
       '>=': ['>=', 'gte', 'ge']}


def bounds(tier):
    return {'zones': ZONES if tier == 'quick' else ZONES_T, 'base_dates': len(BASES) if tier == 'quick' else len(BASES) + len(month_ends()) + 4, 'precisions': 4, 'relative_offsets': '-7..+1'}


def literals(base, tier):
    """(text, needs_quote, a_naive, b_naive)"""
    Y, M, D, h, m, s = base
    res = []
    for sep in '-:':
        for pad in (True, False):
            if not pad and not (M < 10 or D < 10 or h < 10):
                continue
            f2 = (lambda v: '%02d' % v) if pad else (lambda v: '%d' % v)
            date = sep.join(['%04d' % Y, f2(M), f2(D)])
            a = dt.datetime(Y, M, D)
            res.append((date, False, a, a.replace(hour=23, minute=59, second=59)))
            res.append((date, True, a, a.replace(hour=23, minute=59, second=59)))
            ah = dt.datetime(Y, M, D, h)
            res.append(('%s %s' % (date, f2(h)), True, ah, ah.replace(minute=59, second=59)))
            am = dt.datetime(Y, M, D, h, m)
            res.append(('%s %s:%s' % (date, f2(h), f2(m)), True, am, am.replace(second=59)))
            asec = dt.datetime(Y, M, D, h, m, s)
            res.append(('%s %s:%s:%s' % (date, f2(h), f2(m), f2(s)), True, asec, asec))
    return res


def near_epochs(naive, zone):
    z = ZoneInfo(zone)
    return sorted({int(naive.replace(tzinfo=z, fold=f).timestamp()) for f in (0, 1)})


def to_epoch(naive, zone):
    z = ZoneInfo(zone)
    aware = naive.replace(tzinfo=z)
    # reject nonexistent local times (DST gap)
    back = dt.datetime.fromtimestamp(aware.timestamp(), z).replace(tzinfo=None)
    if back != naive:
        return None
    return int(aware.timestamp())


def local_naive(epoch, zone):
    return dt.datetime.fromtimestamp(epoch, ZoneInfo(zone)).replace(tzinfo=None)


ZONES_T = ZONES + ['America/New_York', 'Australia/Lord_Howe', 'Pacific/Chatham', 'Asia/Kathmandu', 'America/St_Johns']


MIDNIGHTS = [('America/Havana', (2021, 11, 7, 0, 30, 0)), ('America/Havana', (2021, 11, 7, 12, 0, 0)), ('America/Havana', (2021, 3, 14, 12, 0, 0)),
             ('America/Havana', (2021, 3, 14, 1, 0, 0)), ('Atlantic/Azores', (2021, 10, 31, 0, 30, 0)), ('America/Santiago', (2021, 9, 5, 12, 0, 0)),
             ('Asia/Beirut', (2021, 3, 28, 12, 0, 0))]


SWITCH_ZONES = ['Australia/Lord_Howe', 'America/St_Johns', 'Australia/Adelaide', 'Europe/Berlin', 'Asia/Kathmandu', 'America/Havana',
                # zones and years in which the change came at a minute that is no multiple of 30 minutes of UTC
                'America/St_Johns@2006', 'America/Goose_Bay@2006', 'Australia/Eucla@2008']


def transitions(zone, year=2021):
    z = ZoneInfo(zone)
    t0 = int(dt.datetime(year, 1, 1, tzinfo=dt.timezone.utc).timestamp())
    out, prev = [], dt.datetime.fromtimestamp(t0, z).utcoffset()
    for t in range(t0, t0 + 366 * 86400, 900):
        off = dt.datetime.fromtimestamp(t, z).utcoffset()
        if off != prev:
            lo = t - 900        # the exact second of the change
            while lo + 1 < t and dt.datetime.fromtimestamp(lo + 1, z).utcoffset() == prev:
                lo += 1
            out.append(lo + 1)
            prev = off
    return out


def month_ends():
    import calendar
    out = []
    for y in (2020, 2021):
        for mth in range(1, 13):
            out.append((y, mth, calendar.monthrange(y, mth)[1], 23, 59, 59))
            out.append((y, mth, 1, 0, 0, 0))
    return out


def groups(tier, seed):
    zones = ZONES if tier == 'quick' else ZONES_T
    bases = BASES if tier == 'quick' else BASES + month_ends() + [(2021, 3, 14, 12, 0, 0), (2021, 11, 7, 12, 0, 0), (2021, 4, 4, 12, 0, 0), (2021, 10, 3, 12, 0, 0)]
    for zone in zones:
        for base in bases:
            yield {'kind': 'abs', 'zone': zone, 'base': list(base), 'only': None}
    # days whose local midnight does not exist or exists twice
    for zone, base in MIDNIGHTS:
        yield {'kind': 'abs', 'zone': zone, 'base': list(base), 'only': None}
    for zone, now in (('America/Havana', (2021, 11, 7, 12, 0, 0)), ('America/Havana', (2021, 3, 14, 12, 0, 0)),
                      ('America/Havana', (2021, 11, 9, 6, 0, 0)), ('Atlantic/Azores', (2021, 10, 31, 12, 0, 0))):
        yield {'kind': 'rel', 'zone': zone, 'now': list(now), 'only': None}
    nows = [(2021, 6, 15, 0, 0, 0), (2021, 6, 15, 12, 0, 0), (2021, 6, 15, 23, 59, 59), (2021, 5, 31, 23, 59, 59),
            (2020, 12, 31, 23, 0, 0), (2021, 1, 1, 0, 0, 1), (2021, 3, 28, 12, 0, 0), (2021, 3, 29, 0, 30, 0),
            (2021, 10, 31, 23, 0, 0), (2021, 11, 1, 0, 10, 0), (2020, 3, 1, 6, 0, 0), (2021, 3, 1, 6, 0, 0)]
    for zone in zones:
        for now in nows:
            yield {'kind': 'rel', 'zone': zone, 'now': list(now), 'only': None}
    yield {'kind': 'fmt'}
    yield {'kind': 'epoch'}
    # spellings of a date beside the documented one: read as what they say, or refused - never cut short in silence
    yield {'kind': 'spelling'}
    # entries a few minutes before and after each change of the zone's offset (also zones that change on a half hour), met in both orders
    for zone in SWITCH_ZONES:
        for rd in ('sorted', 'rev'):
            yield {'kind': 'switch', 'zone': zone, 'rd': rd}
    # several date conditions with different literals in one WHERE, some of them skipped for some rows
    for zone in ('UTC', 'Europe/Berlin'):
        for rd in ('sorted', 'rev'):
            yield {'kind': 'compound', 'zone': zone, 'rd': rd, 'only': None}


def single(case):
    if case['kind'] == 'abs':
        return {'kind': 'abs', 'zone': case['zone'], 'base': case['base'], 'only': case['cond']}
    if case['kind'] == 'epoch':
        return {'kind': 'epoch', 'only': case['cond']}
    if case['kind'] == 'spelling':
        return {'kind': 'spelling', 'only': case['cond']}
    if case['kind'] == 'switch':
        return {'kind': 'switch', 'zone': case['zone'], 'rd': case['rd']}
    if case['kind'] == 'compound':
        return {'kind': 'compound', 'zone': case['zone'], 'rd': case['rd'], 'only': case['cond']}
    if case['kind'] == 'rel':
        return {'kind': 'rel', 'zone': case['zone'], 'now': case['now'], 'only': case['cond']}
    return {'kind': 'fmt'}


def truth(op, t, a, b):
    return {'=': a <= t <= b, '!=': not (a <= t <= b), '<': t < a, '>': t > b, '<=': t <= b, '>=': t >= a,
            '===': t == a, '!==': t != a}[op]


def run_conds(env, root, zone, times, conds, group, outs, extra_env=None, kind='abs'):
    """times: {filename: epoch}; conds: [(cond text, op, a, b, class)]"""
    loc = {n: local_naive(e, zone) for n, e in times.items()}
    e = {'TZ': zone}
    if extra_env:
        e.update(extra_env)
    for cond, op, a, b, cls in conds:
        if group.get('only') is not None and cond != group['only']:
            continue
        q = 'name from . where modified %s into list' % cond
        o = env.run([q], cwd=root, env=e, preload=extra_env is not None)
        exp = sorted(n for n, t in loc.items() if truth(op, t, a, b))
        case = {'kind': kind, 'zone': zone, 'cond': cond}
        case.update({k: group[k] for k in ('base', 'now') if k in group})
        r = {'case': case, 'nt': 0 < len(exp) < len(loc), 'layer': cls, 'trans': len(loc)}
        rows = o.rows()
        if o.timeout or o.rc != 0 or o.err:
            r.update(status='viol', cls=cls + ':status', detail=dict(o.brief(), query=q, zone=zone), sig=('err', o.rc))
        elif sorted(rows) != exp:
            got = set(rows)
            r.update(status='viol', cls=cls + ':' + op, sig=('rows', op),
                     detail={'query': q, 'zone': zone, 'missing': sorted(set(exp) - got), 'extra': sorted(got - set(exp)),
                             'interval': [str(a), str(b)], 'times': {n: str(t) for n, t in sorted(loc.items())}})
        else:
            r.update(status='ok', sig=(op, len(exp)))
        outs.append(r)


def eval_group(env, group, tier):
    outs = []
    kind = group['kind']
    if kind == 'abs':
        zone, base = group['zone'], tuple(group['base'])
        lits = literals(base, tier)
        # one directory per literal interval (several spellings share an interval)
        byint = {}
        for text, q, a, b in lits:
            byint.setdefault((a, b), []).append((text, q))
        for (a, b), forms in byint.items():
            # instants around both ends of the interval; an end that does not exist (DST gap) or exists twice in the
            # zone contributes the instants next to it - the truth of every comparison is computed from each file's
            # own local wall-clock time, so nothing has to be skipped
            cand = sorted(set(near_epochs(a, zone) + near_epochs(b, zone)))
            pts = {(cand[0] + cand[-1]) // 2}
            for e_ in cand:
                pts.update((e_ - 86400, e_ - 3600, e_ - 1, e_, e_ + 1, e_ + 3600, e_ + 86400))
            pts = sorted(pts)
            times = {'t%02d' % i: p for i, p in enumerate(pts)}
            root = env.newdir('c13')
            core.materialise(root, {n: F(1, mtime=p) for n, p in times.items()})
            try:
                conds = []
                for text, quoted in forms:
                    lit = "'%s'" % text if quoted else text
                    for op, spells in OPS.items():
                        for sp in (spells if quoted and '-' in text and len(forms) else spells[:1]):
                            conds.append(('%s %s' % (sp, lit), op, a, b, 'interval'))
                    if a == b:
                        for sp, op in (('===', '==='), ('eeq', '==='), ('!==', '!=='), ('ene', '!==')):
                            conds.append(('%s %s' % (sp, lit), op, a, b, 'exact'))
                # dedupe
                seen, cc = set(), []
                for c in conds:
                    if c[0] not in seen:
                        seen.add(c[0])
                        cc.append(c)
                run_conds(env, root, zone, times, cc, group, outs)
            finally:
                env.rmtree(root)
    elif kind == 'rel':
        zone, now = group['zone'], dt.datetime(*group['now'])
        enow = to_epoch(now, zone)
        if enow is None:
            return []
        today = now.replace(hour=0, minute=0, second=0)
        times = {}
        for k in list(range(-9, 3)) + [-1201, -1200, -1199, -1001, -1000, -999, -998, 999, 1000, 1001]:
            d = today + dt.timedelta(days=k)
            for i_, e0 in enumerate(near_epochs(d, zone)):
                for j, p in enumerate((e0 - 1, e0, e0 + 43200)):
                    times['d%+03d_%d%s' % (k, j, 'x' * i_)] = p
        root = env.newdir('c13r')
        core.materialise(root, {n: F(1, mtime=p) for n, p in times.items()})
        try:
            conds = []
            rel = [('today', 0), ('yesterday', -1), ("'today'", 0)] + [("'%+d'" % k, k) for k in range(-7, 2) if k != 0] + \
                  [('-1', -1), ('-3', -3), ('-7', -7), ('-999', -999), ('-1000', -1000), ("'-1200'", -1200), ('-1200', -1200), ("'+1000'", 1000),
                   ('+1', 1), ('+2', 2), ('+1000', 1000)]
            for text, k in rel:
                a = today + dt.timedelta(days=k)
                b = a.replace(hour=23, minute=59, second=59)
                for op, spells in OPS.items():
                    conds.append(('%s %s' % (spells[0], text), op, a, b, 'relative'))
            run_conds(env, root, zone, times, conds, group, outs, extra_env={'FSX_NOW': str(enow)}, kind='rel')
        finally:
            env.rmtree(root)
    elif kind == 'compound':
        zone = group['zone']
        base = dt.datetime(2020, 6, 15, 12, 0, 0)
        tree, loc = {}, {}
        for i, k in enumerate((-40, -3, -1, 0, 1, 3, 40)):
            d_ = {}
            for j, n in enumerate('abc'):
                naive = base + dt.timedelta(days=k, hours=j * 5 - 5)
                e_ = near_epochs(naive, zone)[0]
                d_[n] = F(1, mtime=e_)
                loc['./d%d/%s' % (i, n)] = (n, local_naive(e_, zone))
            tree['d%d' % i] = core.D(d_, mtime=near_epochs(base + dt.timedelta(days=100 + i), zone)[0])
        root = env.newdir('c13c')
        core.materialise(root, tree)
        L = {'L0': ('2020-06-12', dt.datetime(2020, 6, 12), dt.datetime(2020, 6, 12, 23, 59, 59)),
             'L1': ("'2020-06-15 12'", dt.datetime(2020, 6, 15, 12), dt.datetime(2020, 6, 15, 12, 59, 59)),
             'L2': ("'2020-06-16 17:00:00'", dt.datetime(2020, 6, 16, 17), dt.datetime(2020, 6, 16, 17)),
             'L3': ('2020-07-01', dt.datetime(2020, 7, 1), dt.datetime(2020, 7, 1, 23, 59, 59))}

        def D_(op, l):
            txt, a, b = L[l]
            return ('modified %s %s' % (op, txt), lambda n, t, op=op, a=a, b=b: truth(op, t, a, b))

        def N_(n0):
            return ("name = '%s'" % n0, lambda n, t, n0=n0: n == n0)

        def AND(x, y):
            return ('(%s and %s)' % (x[0], y[0]), lambda n, t: x[1](n, t) and y[1](n, t))

        def OR(x, y):
            return ('(%s or %s)' % (x[0], y[0]), lambda n, t: x[1](n, t) or y[1](n, t))

        def NOT(x):
            return ('not %s' % x[0], lambda n, t: not x[1](n, t))
        forms = [OR(AND(N_('a'), D_('>', 'L1')), D_('<', 'L0')), AND(OR(D_('<', 'L0'), D_('>', 'L2')), D_('!=', 'L3')),
                 OR(OR(N_('b'), D_('=', 'L1')), D_('>', 'L2')), AND(D_('>=', 'L1'), OR(N_('c'), D_('<', 'L2'))),
                 AND(NOT(AND(N_('a'), D_('>=', 'L1'))), D_('<=', 'L2')), OR(AND(D_('>', 'L0'), D_('<', 'L1')), AND(D_('>', 'L2'), D_('<', 'L3'))),
                 OR(D_('=', 'L2'), OR(AND(N_('b'), D_('<=', 'L0')), AND(N_('c'), D_('>=', 'L3')))),
                 AND(OR(N_('a'), D_('>', 'L3')), OR(N_('b'), OR(D_('<', 'L1'), D_('=', 'L3')))),
                 # the same literal under an interval operator and under a strict one (each comparison keeps its own reading of the literal)
                 OR(D_('=', 'L0'), D_('===', 'L0')), AND(D_('>', 'L0'), D_('!==', 'L0')), OR(D_('<=', 'L0'), D_('===', 'L0')), AND(D_('!=', 'L0'), D_('!==', 'L0')),
                 OR(D_('===', 'L0'), D_('=', 'L0')), AND(D_('!==', 'L0'), D_('<=', 'L0')), OR(AND(N_('a'), D_('=', 'L1')), D_('===', 'L1')), AND(D_('>=', 'L0'), OR(D_('!==', 'L0'), D_('>', 'L0')))]
        try:
            for txt, f in forms:
                if group.get('only') is not None and txt != group['only']:
                    continue
                q = 'path from . where is_file = true and %s into list' % txt
                o = env.run([q], cwd=root, env={'TZ': zone, 'FSX_READDIR': group['rd']}, preload=True)
                exp = sorted(p_ for p_, (n, t) in loc.items() if f(n, t))
                r = {'case': {'kind': 'compound', 'zone': zone, 'rd': group['rd'], 'cond': txt}, 'nt': 0 < len(exp) < len(loc), 'layer': 'compound',
                     'trans': len(loc)}
                rows = o.rows()
                if o.timeout or o.rc != 0 or o.err:
                    r.update(status='viol', cls='compound:status', detail=dict(o.brief(), query=q, zone=zone), sig=('err', o.rc))
                elif sorted(rows) != exp:
                    got = set(rows)
                    r.update(status='viol', cls='compound:rows', sig=('rows', txt),
                             detail={'query': q, 'zone': zone, 'missing': sorted(set(exp) - got)[:6], 'extra': sorted(got - set(exp))[:6]})
                else:
                    r.update(status='ok', sig=(txt, len(exp)))
                outs.append(r)
        finally:
            env.rmtree(root)
    elif kind == 'epoch':
        import math
        times = {'n%02d' % i: p for i, p in enumerate([-86400.5, -2.5, -1.75, -1.0, -0.5, -0.25, 0.0, 0.25, 0.75, 1.0, 1.5, 86399.75])}
        root = env.newdir('c13e')
        core.materialise(root, {n: F(1, mtime=p) for n, p in times.items()})
        try:
            floor_times = {n: math.floor(p) for n, p in times.items()}
            conds = []
            for lit, a, b in (('1969-12-31 23:59:59', -1, -1), ('1970-01-01 00:00:00', 0, 0), ('1969-12-31', -86400, -1), ('1970-01-01', 0, 86399),
                              ('1969-12-31 23:59:58', -2, -2), ('1969-12-31 23:59', -60, -1), ('1970-01-01 00:00:01', 1, 1)):
                for op in OPS:
                    conds.append(("%s '%s'" % (op, lit), op, dt.datetime(1970, 1, 1) + dt.timedelta(seconds=a), dt.datetime(1970, 1, 1) + dt.timedelta(seconds=b), 'epoch'))
            run_conds(env, root, 'UTC', floor_times, conds, group, outs, kind='epoch')
        finally:
            env.rmtree(root)
    elif kind == 'spelling':
        D0 = dt.datetime(2017, 5, 1)
        at = lambda h, m=0, s_=0: D0 + dt.timedelta(hours=h, minutes=m, seconds=s_)
        stamps = {'t0000': at(0), 't0200': at(2), 't0310': at(3, 10), 't0830': at(8, 30), 't0900': at(9), 't1200': at(12), 't1400': at(14, 0, 30), 't1510': at(15, 10), 't151030': at(15, 10, 30),
                  't151031': at(15, 10, 31), 't2030': at(20, 30), 't2359': at(23, 59, 59), 'next': at(24), 'prev': at(-1)}
        root = env.newdir('c13p')
        core.materialise(root, {n: F(1, mtime=int(t.replace(tzinfo=dt.timezone.utc).timestamp())) for n, t in stamps.items()})
        never = (dt.datetime(9999, 1, 1), dt.datetime(9999, 1, 1))
        lits = [('2017-05-01T15:10:30', at(15, 10, 30), at(15, 10, 30)), ('2017-05-01  15:10:30', at(15, 10, 30), at(15, 10, 30)), ('2017-05-01 15:10:30.5', at(15, 10, 30), at(15, 10, 30)),
                ('2017-05-01T15:10', at(15, 10), at(15, 10, 59)), ('2017-05-01   09', at(9), at(9, 59, 59)), ('2017-05-01 3:10 pm', at(15, 10), at(15, 10, 59)),
                ('2017-05-01 8:30pm', at(20, 30), at(20, 30, 59)), ('2017-05-01 2pm', at(14), at(14, 59, 59)),
                ('2017-05-01, 15:10', at(15, 10), at(15, 10, 59)), ('2017-05-01 noon', at(12), at(12, 59, 59)), ('12017-05-01',) + never, ('2017-05-011',) + never, ('x2017-05-01y',) + never,
                ('2017-05-01 15:10:30 UTC', at(15, 10, 30), at(15, 10, 30)), ('2017-05-01 15h', at(15), at(15, 59, 59)), ('2017-05-01 1510', at(15, 10), at(15, 10, 59))]
        try:
            for lit, a, b in lits:
                for op in ('=', '<', '>', '>=', '!='):
                    cond = "%s '%s'" % (op, lit)
                    if group.get('only') is not None and cond != group['only']:
                        continue
                    q = 'name from . where modified %s into list' % cond
                    o = env.run([q], cwd=root, env={'TZ': 'UTC'})
                    exp = sorted(n for n, t in stamps.items() if truth(op, t, a, b))
                    exp_instant = sorted(n for n, t in stamps.items() if truth(op, t, a, a))      # the free-form reader names an instant, not a span
                    r = {'case': {'kind': 'spelling', 'cond': cond}, 'nt': True, 'layer': 'other-spellings', 'trans': len(stamps)}
                    if o.timeout or o.panicked or o.rc not in (0, 2):
                        r.update(status='viol', cls='spelling:status', detail=dict(o.brief(), query=q), sig=('err', o.rc))
                    elif o.rc == 2:
                        if o.out or not o.err:
                            r.update(status='viol', cls='spelling:refused-without-diagnostic-or-with-rows', detail=dict(o.brief(), query=q), sig=('refuse',))
                        else:
                            r.update(status='ok', sig=('refused', lit))
                    elif sorted(o.rows()) not in (exp, exp_instant):
                        r.update(status='viol', cls='spelling:cut-short', sig=('rows', lit),
                                 detail={'query': q, 'missing': sorted(set(exp) - set(o.rows())), 'extra': sorted(set(o.rows()) - set(exp)), 'literal_means': [str(a), str(b)]})
                    else:
                        r.update(status='ok', sig=('read', lit, op))
                    outs.append(r)
        finally:
            env.rmtree(root)
    elif kind == 'switch':
        zone, rd = group['zone'], group['rd']
        year = 2021
        if '@' in zone:
            zone, year = zone.split('@')[0], int(zone.split('@')[1])
        stamps = {}
        for k, t in enumerate(transitions(zone, year) or [1616893200]):
            for j, d in enumerate((-2700, -900, -1, 0, 900, 2700, 1799, -1801)):
                stamps['w%d%d' % (k, j)] = t + d
        stamps['far'] = 1600000000
        root = env.newdir('c13s')
        core.materialise(root, {n: F(1, mtime=t, atime=t) for n, t in stamps.items()})
        try:
            texts = {n: local_naive(t, zone).strftime('%Y-%m-%d %H:%M:%S') for n, t in stamps.items()}
            o = env.run(['name, modified, accessed from . into list'], cwd=root, env={'TZ': zone, 'FSX_READDIR': rd}, preload=True)
            rows = o.rows(3) or []
            exp = sorted((n, x, x) for n, x in texts.items())
            r = {'case': {'kind': 'switch', 'zone': group['zone'], 'rd': rd}, 'nt': True, 'layer': 'offset-change', 'trans': len(stamps)}
            if o.rc != 0 or sorted(map(tuple, rows)) != exp:
                bad = [(g, e) for g, e in zip(sorted(map(tuple, rows)), exp) if tuple(g) != e][:4]
                r.update(status='viol', cls='modified-text-at-offset-change', detail={'zone': zone, 'diff': bad, 'err': o.brief()['err'], 'rd': rd}, sig=('switch',))
            else:
                # every entry is found by its own printed time, whatever was looked at before it
                bad = None
                for n, x in sorted(texts.items()):
                    q = "name from . where modified = '%s' or accessed < '1999-01-01' into list" % x
                    o2 = env.run([q], cwd=root, env={'TZ': zone, 'FSX_READDIR': rd}, preload=True)
                    want = sorted(m for m, y in texts.items() if y == x)
                    if o2.rc != 0 or sorted(o2.rows()) != want:
                        bad = {'zone': zone, 'query': q, 'got': sorted(o2.rows()), 'expected': want, 'rd': rd}
                        break
                if bad:
                    r.update(status='viol', cls='comparison-at-offset-change', detail=bad, sig=('switch-cmp',))
                else:
                    r.update(status='ok', sig=(zone, rd))
            outs.append(r)
        finally:
            env.rmtree(root)
    else:
        # the modified column prints local time
        pts = [-0.25, -0.75, -1.5, -86399.5, -86400.25, -1, -2, 0.5, 0, 1, 951782400, 1583020799, 1614834367, 1616893200, 1616893199, 1635641999, 1635645600, 1609459199, 1609459200, 2000000000]
        root = env.newdir('c13f')
        core.materialise(root, {'t%02d' % i: F(1, mtime=p) for i, p in enumerate(pts)})
        try:
            for zone in ZONES:
                o = env.run(['name, modified from . into list'], cwd=root, env={'TZ': zone})
                rows = o.rows(2) or []
                import math
                exp = sorted(('t%02d' % i, local_naive(math.floor(p), zone).strftime('%Y-%m-%d %H:%M:%S')) for i, p in enumerate(pts))
                r = {'case': {'kind': 'fmt', 'zone': zone}, 'nt': True, 'layer': 'format', 'trans': len(pts)}
                if o.rc != 0 or sorted(rows) != exp:
                    bad = [(g, e) for g, e in zip(sorted(rows), exp) if g != e][:4]
                    r.update(status='viol', cls='modified-text', detail={'zone': zone, 'diff': bad, 'err': o.brief()['err']}, sig=('fmt',))
                else:
                    r.update(status='ok', sig=(zone,))
                outs.append(r)
        finally:
            env.rmtree(root)
    return outs
