"""C06 LIMIT N returns min(N, matches) rows, and with ORDER BY the true top N."""
import io
import itertools
import math
import os
import zipfile

from fsx import core
from fsx import ordmodel as om
from fsx.core import D, F

ID = 'C06'
LEVEL = 'model_checking'
RULE = ('for every (tree, query) pair - filtered/unfiltered x unordered / ordered by size, name, (size,name desc) x one or two '
        'roots x bfs/dfs x with/without archives - EVERY N in 0..M+2 and no limit; for the tie trees every readdir '
        'permutation of the directory (the arrival orders that decide which tied row is evicted); all tree shapes with '
        '<= E entries; non-trivial = 0 < N < M')
MC_NOTE = ('state = (tree, query, N, readdir permutation); the readdir permutations are the schedules, all of them are '
           'explored for directories with <= 5 (thorough 6) entries; transitions = rows compared')
ASSUMPTIONS = ['ties at the cut may be resolved either way: key sequences are compared, not row identities',
               'zip members are modelled with Python zipfile (name, uncompressed size)']
BUDGET = {'quick': 50, 'thorough': 1200}


def bounds(tier):
    return {'N': '0..M+2 and absent', 'M_max': 14, 'perm_dir_entries': 5 if tier == 'quick' else 6,
            'shape_entries': 5 if tier == 'quick' else 7}


def zbytes(members):
    b = io.BytesIO()
    with zipfile.ZipFile(b, 'w') as z:
        for name, size in members:
            z.writestr(zipfile.ZipInfo(name, (2020, 1, 2, 3, 4, 6)), b'z' * size)
    return b.getvalue()


ZIP_MEMBERS = [('m1', 5), ('m2', 3000), ('m3', 9)]


def lim_tree():
    return {'a': F(5), 'b': F(5), 'c': F(5), 'd': F(9), 'e': F(1),
            'sub': D({'a': F(5), 'g': F(9), 'h': F(100), 'z.zip': F(data=zbytes(ZIP_MEMBERS))}),
            'oth': D({'k': F(5), 'l': F(2)})}


def tie_tree(n):
    sizes = [5, 5, 5, 9, 5, 1][:n]
    return {'f%d' % i: F(s) for i, s in enumerate(sizes)}


ORDERS = [None, ['size'], ['size desc'], ['name'], ['size', 'name desc'],
          # keys that are calls whose first argument is a constant (the column stands in a later argument)
          ["concat_ws('-', ext, name)"], ['least(99999999, size)', "concat('k', name) desc"], ['greatest(0, size) desc']]


def groups(tier, seed):
    # family 1: the limit tree
    cases = []
    for where, order, roots, mode, arc in itertools.product((False, True), range(len(ORDERS)), ('dot', 'two'),
                                                            (None, 'dfs'), (False, True)):
        if order >= 5 and arc:
            continue        # (what ext and name of an archive member are inside a function is not modelled here)
        cases.append({'where': where, 'order': order, 'roots': roots, 'mode': mode, 'arc': arc, 'rd': None})
    for i in range(0, len(cases), 8):
        yield {'tree': 'lim', 'cases': cases[i:i + 8]}
    # family 2: tie tree under every readdir permutation
    for n in ((3, 4, 5) if tier == 'quick' else (3, 4, 5, 6)):
        for k in range(math.factorial(n)):
            yield {'tree': 'tie%d' % n, 'cases': [{'where': False, 'order': o, 'roots': 'dot', 'mode': None, 'arc': False, 'rd': k}
                                                  for o in (1, 2)]}
    # family 5: many rows (internal buffers and batches have sizes too): two roots, long tie groups
    yield {'tree': 'big', 'big': True, 'cases': [{'order': o, 'N': n} for o in (1, 2, 3) for n in (None, 1, 2, 10, 11, 299, 300, 301, 570, 571, 572)]}
    # family 6: the select list reads file columns only inside later function arguments
    yield {'tree': 'lim', 'cases': [{'where': False, 'order': o, 'roots': r, 'mode': None, 'arc': False, 'rd': None, 'sel': sel}
                                    for sel in ("concat('f:', name)", "concat_ws('-', 'f', path)", "replace('x-y', 'y', name)")
                                    for o in (0, 1) for r in ('dot', 'two')]}
    # family 6b: ... and nothing else is selected (the query must still be recognised as reading file columns)
    yield {'tree': 'lim', 'selonly': True, 'cases': [{'sel': i, 'N': n, 'roots': r} for i in range(len(SELONLY)) for n in (None, 0, 1, 2, 5, 50) for r in ('dot', 'two', 'none', 'tail')]}
    # family 8: standard output is a terminal (names are coloured there): the N rows are those that a pipe gets
    yield {'tree': 'lim', 'tty': True, 'cases': []}
    # family 7: aggregates see every row whatever LIMIT says (one row is <= any N >= 1), also over several roots
    yield {'tree': 'lim', 'agg': True, 'cases': [{'roots': r, 'N': n, 'arc': a} for r in ('dot', 'two') for n in (None, 1, 2, 5) for a in (False, True)]}
    # family 4: grouped rows are rows too
    yield {'tree': 'lim', 'grouped': True, 'cases': [{'gorder': o, 'gkey': k} for k in ('ext', 'size', 'is_dir') for o in (None, 'key', 'key desc', 'count desc')]}
    # family 4b: any grouped query shape - LIMIT N gives the first N rows of the same query without LIMIT (differential):
    # no aggregate selected, several keys selected in another order than grouped, keys behind functions, arithmetic over aggregates
    yield {'tree': 'lim', 'gdiff': True, 'cases': [{'sel': sel, 'gby': gby, 'ob': ob}
           for sel, gby, obs in GDIFF for ob in obs]}
    # family 3: all small shapes
    for sh in core.tree_shapes(5 if tier == 'quick' else 7):
        yield {'tree': ['shape', sh], 'cases': [{'where': False, 'order': o, 'roots': 'dot', 'mode': m, 'arc': False, 'rd': None}
                                                for o in (0, 1, 3) for m in (None, 'dfs')]}


GDIFF = [
    ('path', 'ext', (None, 'path', 'path desc')), ('name, path', 'size', ('path', 'name desc, path')), ('path', 'ext, size', ('path desc', 'size, path')),
    ('ext, size, count(*)', 'size, ext', ('ext', 'ext desc', 'size', 'size desc, ext', 'ext, size desc', 'count(*) desc, ext, size')),
    ('size, ext, sum(size)', 'ext, size', ('size', 'ext desc, size', '1', '2, 1 desc')),
    ('is_dir, ext, size, count(*)', 'size, is_dir, ext', ('ext, size', 'size desc, ext', 'is_dir, ext desc, size')),
    ('count(*), ext, size', 'size, ext', ('ext, size', 'size, ext desc', '1 desc, 2, 3')),
    ('upper(ext), length(name), count(*)', 'length(name), upper(ext)', ('upper(ext), length(name)', 'length(name) desc, upper(ext)')),
    ('ext, max(size) - min(size), count(*)', 'ext', ('ext', 'max(size) - min(size) desc, ext')),
]


def eval_gdiff(env, root, group):
    res = []
    for c in group['cases']:
        ncols = len(c['sel'].split(', '))
        base = '%s from . group by %s%s' % (c['sel'], c['gby'], ' order by ' + c['ob'] if c['ob'] else '')
        o = env.run([base + ' into list'], cwd=root)
        full = o.rows(ncols)
        if o.rc != 0 or o.err or full is None:
            res.append({'case': dict(c, N=None, fam='gdiff', query=base), 'status': 'viol', 'cls': 'status', 'detail': dict(o.brief(), query=base),
                        'sig': ('err',), 'nt': True, 'layer': 'grouped-differential'})
            continue
        if ncols == 1:
            full = [(x,) for x in full]
        M = len(full)
        sel = [x.strip() for x in c['sel'].split(', ')]
        okeys = []
        for part in (c['ob'].split(', ') if c['ob'] else []):
            col = part[:-5] if part.endswith(' desc') else part
            okeys.append(int(col) - 1 if col.isdigit() else sel.index(col) if col in sel else None)
        for N in [0] + list(range(1, M + 3)):
            if group.get('only_n', 'all') != 'all' and N != group['only_n']:
                continue
            q = base + ' limit %d into list' % N
            o = env.run([q], cwd=root)
            rows = o.rows(ncols)
            if rows is not None and ncols == 1:
                rows = [(x,) for x in rows]
            want = M if N == 0 else min(N, M)
            r = {'case': dict(c, N=N, fam='gdiff', query=q), 'nt': 0 < N < M, 'layer': 'grouped-differential'}
            bad = None
            if o.timeout or o.rc != 0 or o.err or rows is None:
                bad = ('status', o.brief())
            elif len(rows) != want:
                bad = ('row-count-grouped', {'got': len(rows), 'expected': want})
            elif any(rows.count(x) > full.count(x) for x in rows):
                bad = ('group-rows-wrong', {'rows': rows[:5]})
            elif c['ob'] and None not in okeys and [tuple(x[i] for i in okeys) for x in rows] != [tuple(x[i] for i in okeys) for x in full[:want]]:
                bad = ('not-the-top-n-groups', {'got': rows[:6], 'expected': full[:min(want, 6)]})
            if bad:
                r.update(status='viol', cls=bad[0], detail=dict(bad[1], query=q), sig=('viol', bad[0]))
            else:
                r.update(status='ok', sig=tuple(rows))
            res.append(r)
    return res


def single(case):
    if case.get('fam') == 'gdiff':
        return {'tree': 'lim', 'gdiff': True, 'cases': [{k: case[k] for k in ('sel', 'gby', 'ob')}], 'only_n': case['N'] if case['N'] is not None else 'all'}
    if case.get('fam') == 'tty':
        return {'tree': 'lim', 'tty': True, 'cases': [], 'only': case['query']}
    if case.get('fam') == 'selonly':
        return {'tree': 'lim', 'selonly': True, 'cases': [{k: case[k] for k in ('sel', 'N', 'roots')}]}
    if case.get('fam') == 'agg':
        return {'tree': 'lim', 'agg': True, 'cases': [{k: case[k] for k in ('roots', 'N', 'arc')}]}
    if case.get('fam') == 'big':
        return {'tree': 'big', 'big': True, 'cases': [{'order': case['order'], 'N': case['N']}]}
    if 'gkey' in case:
        return {'tree': 'lim', 'grouped': True, 'cases': [{'gorder': case['gorder'], 'gkey': case['gkey']}], 'only_n': case['N']}
    return {'tree': case['tree'], 'cases': [{k: case[k] for k in ('where', 'order', 'roots', 'mode', 'arc', 'rd', 'sel') if k in case}],
            'only_n': case.get('N', 'all')}


def tolist(x):
    return [tolist(i) for i in x] if isinstance(x, (tuple, list)) else x


def totuple(x):
    return tuple(totuple(i) for i in x) if isinstance(x, (tuple, list)) else x


def eval_group(env, group, tier):
    tname = group['tree']
    root = env.newdir('c6')
    if tname == 'lim':
        tree = lim_tree()
    elif tname == 'big':
        tree = {'r1': D({'a%03d' % i: F(5) for i in range(300)}), 'r2': D({'b%03d' % i: F(9 if i < 30 else 5 if i < 200 else 7) for i in range(270)})}
    elif isinstance(tname, str) and tname.startswith('tie'):
        tree = tie_tree(int(tname[3:]))
    else:
        tree = core.shape_to_tree(totuple(tname[1]))
        tname = ['shape', tolist(tname[1])]
    core.materialise(root, tree)
    outs = []
    try:
        if group.get('grouped'):
            return eval_grouped(env, root, group)
        if group.get('gdiff'):
            return eval_gdiff(env, root, group)
        if group.get('agg'):
            return eval_agg(env, root, group)
        if group.get('selonly'):
            return eval_selonly(env, root, group)
        if group.get('tty'):
            return eval_tty(env, group)
        if group.get('big'):
            return eval_big(env, root, group)
        for c in group['cases']:
            outs.extend(eval_pair(env, root, tname, c, group.get('only_n', 'all')))
    finally:
        env.rmtree(root)
    return outs


def eval_pair(env, root, tname, c, only_n):
    keys_spec = ORDERS[c['order']]
    rootlist = ['.'] if c['roots'] == 'dot' else ['sub', 'oth']
    ents = []
    for r in rootlist:
        base = root if r == '.' else os.path.join(root, r)
        es = om.entries(base, prefix=r)
        if c['arc']:
            for e in list(es):
                if e['name'].endswith('.zip'):
                    for mn, ms in ZIP_MEMBERS:
                        es.append({'name': '[%s] %s' % (e['name'], mn), 'path': '[%s] %s' % (e['path'], mn), 'size': ms,
                                   'ext': '', 'nlink': 0, 'uid': 0, 'mtime': 0, 'isdir': False})
        ents.extend(es)
    if c['where']:
        ents = [e for e in ents if e['size'] > 4]
    M = len(ents)
    opts = (' archives' if c['arc'] else '') + (' ' + c['mode'] if c['mode'] else '')
    frm = ', '.join(r + opts for r in rootlist)
    w = ' where size gt 4' if c['where'] else ''
    ob = (' order by ' + ', '.join(keys_spec)) if keys_spec else ''
    keys = [k.replace(' desc', '') for k in keys_spec] if keys_spec else []
    dirs = [not k.endswith(' desc') for k in keys_spec] if keys_spec else []
    bypath = {}
    for e in ents:
        bypath.setdefault(e['path'], []).append(e)
    full_keys = [om.keyvec(e, keys) for e in om.full_sort(ents, keys, dirs)] if keys else None
    envx = {'FSX_READDIR': 'perm:%d' % c['rd']} if c['rd'] is not None else None
    res = []
    ns = [None] + list(range(0, M + 3))
    if only_n != 'all':
        ns = [only_n]
    for N in ns:
        lim = '' if N is None else ' limit %d' % N
        q = ('path, ' + c['sel'] if c.get('sel') else 'path') + ' from ' + frm + w + ob + lim + ' into list'
        o = env.run([q], cwd=root, preload=envx is not None, env=envx)
        case = dict(c, tree=tname, N=N, query=q)
        r = {'case': case, 'nt': N is not None and 0 < N < M, 'layer': 'ordered' if keys else 'unordered'}
        rows = o.rows(2) if c.get('sel') else o.rows()
        if c.get('sel') and rows is not None:
            rows = [r_[0] for r_ in rows]
        rows = rows or []
        want = M if N in (None, 0) else min(N, M)
        r['trans'] = max(1, want)

        def viol(cls, detail):
            r.update(status='viol', cls=cls, detail=dict(detail, query=q, M=M), sig=('viol', cls))
        if o.timeout or o.rc != 0 or o.err:
            viol('status-or-stderr', o.brief())
        elif len(rows) != want:
            viol('row-count' + ('-archives' if c['arc'] else ''), {'got': len(rows), 'expected': want, 'rows': rows[:20]})
        elif any(p not in bypath for p in rows) or any(rows.count(p) > len(bypath[p]) for p in set(rows)):
            viol('not-a-sub-multiset', {'rows': rows[:20]})
        elif keys:
            vecs = [om.keyvec(bypath[p][0], keys) for p in rows]
            if om.sorted_ok(vecs, dirs) is not None:
                viol('limited-output-unsorted', {'rows': rows[:20]})
            elif vecs != full_keys[:want]:
                viol('not-the-top-n' + ('-archives' if c['arc'] else ''),
                     {'got_keys': [list(map(str, v)) for v in vecs][:12], 'top_keys': [list(map(str, v)) for v in full_keys[:want]][:12]})
            else:
                r.update(status='ok', sig=tuple(rows))
        else:
            r.update(status='ok', sig=tuple(rows))
        res.append(r)
    return res


def eval_grouped(env, root, group):
    """LIMIT applies to group rows: min(N, G) rows, with ORDER BY the first N of the sorted group rows."""
    ents = om.entries(root, prefix='.')
    res = []
    for c in group['cases']:
        key = c['gkey']
        val = {'ext': lambda e: e['ext'], 'size': lambda e: str(e['size']), 'is_dir': lambda e: 'true' if e['isdir'] else 'false'}[key]
        counts = {}
        for e in ents:
            counts[val(e)] = counts.get(val(e), 0) + 1
        G = len(counts)
        ob = {None: '', 'key': ' order by %s' % key, 'key desc': ' order by %s desc' % key, 'count desc': ' order by count(*) desc'}[c['gorder']]
        for N in [None] + list(range(0, G + 3)):
            if group.get('only_n', 'all') != 'all' and N != group['only_n']:
                continue
            q = '%s, count(*) from . group by %s%s%s into list' % (key, key, ob, '' if N is None else ' limit %d' % N)
            o = env.run([q], cwd=root)
            rows = o.rows(2)
            want = G if N in (None, 0) else min(N, G)
            r = {'case': {'gkey': key, 'gorder': c['gorder'], 'N': N, 'query': q}, 'nt': N is not None and 0 < N < G, 'layer': 'grouped'}
            bad = None
            if o.timeout or o.rc != 0 or o.err or rows is None:
                bad = ('status', o.brief())
            elif len(rows) != want:
                bad = ('row-count-grouped', {'got': len(rows), 'expected': want})
            elif any(counts.get(k) != int(v) for k, v in rows) or len({k for k, _ in rows}) != len(rows):
                bad = ('group-rows-wrong', {'rows': rows})
            elif c['gorder']:
                if c['gorder'].startswith('key'):
                    kf = (lambda k: int(k)) if key == 'size' else (lambda k: k)
                    full = sorted((kf(k) for k in counts), reverse=c['gorder'].endswith('desc'))
                    got = [kf(k) for k, _ in rows]
                else:
                    full = sorted(counts.values(), reverse=True)
                    got = [int(v) for _, v in rows]
                if got != full[:want]:
                    bad = ('not-the-top-n-groups', {'got': got, 'expected': full[:want]})
            if bad:
                r.update(status='viol', cls=bad[0], detail=dict(bad[1], query=q), sig=('viol', bad[0]))
            else:
                r.update(status='ok', sig=tuple(rows))
            res.append(r)
    return res


def eval_agg(env, root, group):
    res = []
    for c in group['cases']:
        rootlist = ['.'] if c['roots'] == 'dot' else ['sub', 'oth']
        ents = []
        for r in rootlist:
            es = om.entries(root if r == '.' else os.path.join(root, r), prefix=r)
            if c['arc']:
                es += [None] * sum(len(ZIP_MEMBERS) for e in es if e['name'].endswith('.zip'))
            ents.extend(es)
        M = len(ents)
        tot = sum(e['size'] for e in ents if e) + (sum(ms for _, ms in ZIP_MEMBERS) if c['arc'] and any(e and e['name'].endswith('.zip') for e in ents) else 0)
        opts = ' archives' if c['arc'] else ''
        q = 'count(*), sum(size) from ' + ', '.join(r + opts for r in rootlist) + ('' if c['N'] is None else ' limit %d' % c['N']) + ' into list'
        o = env.run([q], cwd=root)
        rows = o.rows(2)
        r = {'case': dict(c, fam='agg', query=q), 'nt': c['N'] is not None, 'layer': 'aggregate-limit'}
        if o.rc != 0 or o.err or rows != [(str(M), str(tot))]:
            r.update(status='viol', cls='aggregate-cut-by-limit', detail={'query': q, 'got': rows, 'expected': [M, tot], 'err': o.brief()['err']}, sig=('agg',))
        else:
            r.update(status='ok', sig=(M, tot))
        res.append(r)
    return res


def eval_big(env, root, group):
    ents = om.entries(os.path.join(root, 'r1'), prefix='r1') + om.entries(os.path.join(root, 'r2'), prefix='r2')
    M = len(ents)
    res = []
    for c in group['cases']:
        keys_spec = ORDERS[c['order']]
        keys = [k.replace(' desc', '') for k in keys_spec]
        dirs = [not k.endswith(' desc') for k in keys_spec]
        N = c['N']
        q = 'path from r1, r2 order by ' + ', '.join(keys_spec) + ('' if N is None else ' limit %d' % N) + ' into list'
        o = env.run([q], cwd=root)
        rows = o.rows()
        want = M if N is None else min(N, M)
        byp = {e['path']: e for e in ents}
        r = {'case': {'fam': 'big', 'order': c['order'], 'N': N, 'query': q}, 'nt': N is not None and N < M, 'layer': 'big', 'trans': want}
        full = [om.keyvec(e, keys) for e in om.full_sort(ents, keys, dirs)]
        if o.rc != 0 or o.err or len(rows) != want or any(p not in byp for p in rows) or len(set(rows)) != len(rows):
            r.update(status='viol', cls='row-count-big', detail={'query': q, 'got': len(rows), 'expected': want}, sig=('big',))
        elif [om.keyvec(byp[p], keys) for p in rows] != full[:want]:
            r.update(status='viol', cls='not-the-top-n-big', detail={'query': q, 'got': [str(om.keyvec(byp[p], keys)) for p in rows][:6], 'expected': [str(x) for x in full[:6]]}, sig=('bigtop',))
        else:
            r.update(status='ok', sig=(c['order'], N))
        res.append(r)
    return res


SELONLY = [("concat('f:', name)", lambda e: 'f:' + e['name']), ("concat_ws('-', 'f', path)", lambda e: 'f-' + e['path']),
           ("replace('x-y', 'y', name)", lambda e: 'x-' + e['name']),
           # functions that read the entry although they name no column (values are not judged: None)
           ("contains('zzz')", None), ("has_xattr(user.none)", None), ("concat('a', has_caps())", None), ("upper(contains('q'))", None),
           # a select list without any column: a row per entry of the place searched all the same, with or without LIMIT
           ('1', lambda e: '1'), ("'hit'", lambda e: 'hit'), ('2 + 2', lambda e: '4'), ("upper('x')", lambda e: 'X'), ('curdate()', None), ("1, 'a'", None)]


def eval_tty(env, group):
    from fsx.props import c05
    root = env.newdir('c6t')
    core.materialise(root, {'zeta.txt': F(1), 'alpha': D({}), 'mid.sh': F(3, mode=0o755), 'beta.txt': F(2), 'omega': D({}), 'gamma.sh': F(4, mode=0o755),
                            'delta.tar': F(5), 'aaa.jpg': F(6), 'link': {'t': 'l', 'to': 'zeta.txt'}, 'kappa': F(7)})
    colors = {'LS_COLORS': 'di=01;34:ln=01;36:ex=01;32:*.tar=01;31:*.jpg=01;35:*.txt=00;33', 'TERM': 'xterm-256color'}
    outs = []
    try:
        for sel, w, ob in (('name', ' where size ge 0', 'name'), ('name', ' where is_dir = false or size ge 0', '1 desc'), ('size, name', '', '2'), ('name, size', '', '1'),
                           ('mode, name', " where name != 'q'", 'name desc')):
            for N in (1, 2, 3, 5, 9, 10, 12):
                q = '%s from .%s order by %s limit %d' % (sel, w, ob, N)
                if group.get('only') is not None and group['only'] != q:
                    continue
                ref = env.run([q + ' into tabs'], cwd=root)
                rc, text, err, raw = c05.run_on_terminal(env, [q], root, colors)
                want = [l.split('\t') for l in ref.out.decode().split('\n') if l]
                got = [l.split('\t') for l in text.split('\n') if l]
                if ref.rc != 0 or len(want) != min(N, 10):
                    raise core.MachineryError('C06 tty reference run failed %r' % ref.brief())
                r = {'case': {'fam': 'tty', 'query': q}, 'nt': True, 'layer': 'terminal'}
                if rc != 0 or err or got != want:
                    r.update(status='viol', cls='terminal:rows-differ-from-pipe', sig=('tty',),
                             detail={'query': q, 'rc': rc, 'terminal': got[:10], 'pipe': want[:10], 'coloured': '\x1b[' in raw})
                else:
                    r.update(status='ok', sig=(sel, ob, N, '\x1b[' in raw))
                outs.append(r)
    finally:
        env.rmtree(root)
    return outs


def eval_selonly(env, root, group):
    res = []
    for c in group['cases']:
        rootlist = ['.'] if c['roots'] in ('dot', 'none', 'tail') else ['sub', 'oth']
        ents = []
        for r in rootlist:
            ents += om.entries(root if r == '.' else os.path.join(root, r), prefix=r)
        sel, f = SELONLY[c['sel']]
        N = c['N']
        # ('none': nothing but the select list - the working directory is searched)
        q = sel + ('' if c['roots'] == 'none' else ' from ' + ', '.join(rootlist)) + ('' if N is None else ' limit %d' % N) + ' into list'
        if c['roots'] == 'tail':    # FROM written after the other clauses
            q = sel + ('' if N is None else ' limit %d' % N) + ' into list from .'
        o = env.run([q], cwd=root)
        rows = o.rows(2) if sel == "1, 'a'" else o.rows()
        M = len(ents)
        want = M if N in (None, 0) else min(N, M)
        if c['roots'] == 'none' and sel in ('1', "'hit'", '2 + 2', "upper('x')", 'curdate()', "1, 'a'") and N in (None, 0):
            want = 1        # a bare constant select list is shown once
        allv = sorted(f(e) for e in ents) if f else None
        r = {'case': dict(c, fam='selonly', query=q), 'nt': True, 'layer': 'select-only-function-args'}
        if o.rc != 0 or o.err or len(rows) != want or (allv is not None and any(rows.count(v) > allv.count(v) for v in rows)):
            r.update(status='viol', cls='row-count-function-arg-select', detail={'query': q, 'got': len(rows), 'expected': want, 'rows': rows[:4]}, sig=('selonly',))
        else:
            r.update(status='ok', sig=(c['sel'], N, len(rows)))
        res.append(r)
    return res
