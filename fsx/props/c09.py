"""C09 Every output format is well-formed and carries exactly the result table."""
import csv
import html
import io
import itertools
import json
from html.parser import HTMLParser

from fsx import core
from fsx.core import D, F

ID = 'C09'
LEVEL = 'exploration'
RULE = ('result tables whose values are file names containing every byte 1..127 except / at the start, middle and end of a '
        'name, multi-byte UTF-8, every ordered pair of 20 separator/markup characters, and combinations of every format\'s separators; 0, 1, 2 and many rows; 1..6 distinct plain '
        'columns; x six formats x four result paths (streamed, ordered buffer, single aggregate row, grouped rows) x '
        'limited/unlimited; every decoded table must equal the table decoded from `into list` of the same query; '
        'non-trivial = table has at least one value containing a separator or markup character of the format'
        '; group rows under LIMIT 1/3/7 (the same command three times: the rows must not vary) with plain, ordered and all-tied ORDER BY; select lists that name a column two to four times')
ASSUMPTIONS = ['JSON key names are not specified: objects are matched to list rows by a column permutation that is constant '
               'over the table', 'HTML is tokenised with html.parser (HTML syntax, not XML)',
               'tabs/lines are compared on tables whose values contain no tab/newline/carriage return',
               'rows are compared as multisets unless ORDER BY is given']
BUDGET = {'quick': 50, 'thorough': 300}


def bounds(tier):
    return {'names': len(all_names()), 'formats': 6, 'paths': 5, 'column_sets': len(COLSETS) if tier == 'thorough' else 6,
            'limits': [None, 1, 3] if tier == 'quick' else [None, 1, 2, 3, 5, 1000]}


def all_names():
    names = []
    for b in range(1, 128):
        ch = chr(b)
        if ch == '/':
            continue
        for n in (ch + 'ab', 'a' + ch + 'b', 'ab' + ch):
            if n not in ('.', '..'):
                names.append(n)
    names += ['é中.txt', 'naïve file.TXT', 'a,b"c\td\ne', '<td>x<td>', '&amp;', '"quoted"', "it's", 'a,b', 'tab\there', '<!--', ']]>',
              '{"k":"v"}', '[1,2]', '<tr><tr>', 'a&b<c>d', 'x\r\ny', '\\n', 'null', '"', ',', '<', '&', "'"]
    # an ampersand in front of what a reader of HTML takes for a character reference even without the semicolon
    names += ['cross&section.md', 'cut&copy-paste.txt', 'q&notes.txt', 'a&lt', 'x&amp', 'a&#65', 'a&#x41', 'R&D', '&gt', 'a&reg', 'b&times2', '&quot', 'x&nbsp;y', 'a&ampb', '&#38;', '&&amp;&']
    seps = [',', '"', "'", '\t', '\n', '\r', '<', '>', '&', ';', '\\', '{', '}', '[', ']', ':', ' ', '#', '%', '=']
    for a in seps:
        for b_ in seps:
            names.append('p' + a + b_ + 'q')
    return sorted(n for n in set(names) if '/' not in n)


def plain(n):
    return not any(c in n for c in '\t\n\r')


LONG5 = ['name', 'path', 'upper(name)', 'lower(name)', "concat(name, 'x')"]
LONGSEL = LONG5 + ['size'] + ["concat(name, '%d')" % i for i in range(36)]      # one record of > 8 KiB, distinct columns
COLSETS = [['name'], ['name', 'size'], ['size', 'name', 'is_dir'], ['name', 'size', 'path', 'ext', 'is_dir', 'mode'],
           ['path'], ['ext'], ['ext', 'name'], ['name', 'path', 'ext', 'size'], ['mode', 'is_dir', 'size', 'name', 'ext'], ['path', 'name'], ['size']]
FORMATS = ['json', 'csv', 'html', 'tabs', 'lines']


def long_names():
    out = []
    for k in range(0, 4):
        out.append('a' * k + 'é' * 120)              # 240+k bytes, 2-byte characters at every alignment
        out.append('b' * k + '中' * 80 + 'z')         # 3-byte characters
        out.append('c' * k + '𝄞' * 60)               # 4-byte characters
    out.append('q' * 255)
    return out


def dirs():
    names = all_names()
    return {
        'long': D({n: F(len(n) % 7) for n in long_names()}),
        'r1': D({'a<1>.txt': F(1), 'b&1': F(2), 'c"1': F(3)}), 'r2': D({'d,2': F(4), 'e\n2': F(5)}),
        # a line break early in a value that goes on for more than a line buffer after it (and before it)
        'nl': D({'top\ndir': D({'a' * 240: D({'b' * 240: D({'c' * 240: D({'d' * 240: D({'e' * 240: D({'leaf\n.txt': F(1)})})})})})}),
                 'f' * 250: D({'g' * 250: D({'h' * 250: D({'i' * 250: D({'j' * 250: D({'k\nl': D({'m' * 200: F(2)})})})})})})}),
        'd0': D({}),
        'd1': D({'a<b>&"c\',d.txt': F(3)}),
        'd2': D({'x,y "z"\n.csv': F(1), "q<r>&amp;'s'\t.html": F(22)}),
        'many': D({n: F(len(n) % 5) for n in names}),
        'plain': D({n: F(len(n) % 5) for n in names if plain(n)}),
    }


def groups(tier, seed):
    # long records: the writers' internal buffers (1 KiB line buffer, 8 KiB csv buffer) are crossed inside one record
    yield {'dir': 'long', 'path': 'stream', 'cases': [{'cols': 'long5', 'fmt': f, 'limit': None} for f in FORMATS] +
           [{'cols': 'long42', 'fmt': f, 'limit': None} for f in FORMATS]}
    yield {'dir': 'long', 'path': 'ordered', 'cases': [{'cols': 'long5', 'fmt': f, 'limit': 3} for f in FORMATS] +
           [{'cols': 'long42', 'fmt': f, 'limit': None} for f in FORMATS]}
    for path in ('stream', 'ordered'):
        yield {'dir': 'nl', 'path': path, 'cases': [{'cols': ci, 'fmt': f, 'limit': None} for ci in (4, 8, 1) for f in ('json', 'csv', 'html')]}
    # several roots with the limit reached inside the first / exactly at the end of the first / inside the second
    for path in ('stream', 'ordered'):
        yield {'dir': 'r1, r2', 'path': path, 'cases': [{'cols': ci, 'fmt': f, 'limit': lim} for ci in (0, 1) for f in FORMATS
                                                          for lim in (None, 1, 2, 3, 4, 5, 6)]}
    for d in ('d0', 'd1', 'd2', 'many', 'plain'):
        for path in ('stream', 'ordered', 'aggregate', 'grouped', 'grouped-ordered'):
            cases = []
            for ci, cols in enumerate(COLSETS if tier == 'thorough' else COLSETS[:6]):
                for fmt in FORMATS:
                    for lim in ((None, 1, 3) if tier == 'quick' else (None, 1, 2, 3, 5, 1000)):
                        if path in ('aggregate',) and (ci > 1 or lim):
                            continue
                        if path.startswith('grouped') and (ci > 1 or lim):
                            continue
                        cases.append({'cols': ci, 'fmt': fmt, 'limit': lim})
            yield {'dir': d, 'path': path, 'cases': cases}
    # a constant first column (its name has no letters, so it reads the same in every letter case)
    for d in ('d1', 'plain'):
        for path in ('stream', 'ordered', 'aggregate', 'grouped', 'grouped-ordered'):
            yield {'dir': d, 'path': path, 'cases': [{'cols': ci, 'fmt': fmt, 'limit': None, 'lit': lit} for ci in (0, 1) for fmt in FORMATS
                                                      for lit in ('1', "'#'", '2 + 3', "'-1'", 'case-twins')]}
    yield from groups_extra(tier)


DUPS = {'dup3': ['name', 'size', 'name'], 'dup4': ['name', 'NAME', 'size', 'name'], 'dup2': ['size', 'size'], 'dup5': ['name', 'lower(name)', 'lower(name)', 'size', 'lower(NAME)'],
        'dup6': ["'x'", "'x'", 'name', "'x'", '5', "'5'"]}


def groups_extra(tier):
    # group rows under a limit: the cut must be the same in every run (with and without tied sort keys)
    for d in ('many', 'plain'):      # hundreds of groups: an order that varies from run to run shows with certainty
        for path in ('grouped', 'grouped-ordered', 'grouped-tied'):
            yield {'dir': d, 'path': path, 'cases': [{'cols': ci, 'fmt': fmt, 'limit': lim} for ci in (0, 1, 5) for fmt in FORMATS for lim in (1, 3, 7)]}
    # ORDER BY keys that are constants (the rows may come in any order, the table is the same)
    for d in ('d1', 'd2', 'plain', 'r1, r2'):
        for path in ('ordered-const:-1', 'ordered-const:2.5', 'ordered-const:1 + 1', 'ordered-const:-1, -7'):
            yield {'dir': d, 'path': path, 'cases': [{'cols': ci, 'fmt': fmt, 'limit': lim} for ci in (0, 1) for fmt in FORMATS for lim in (None, 2)]}
    # no place to search at all (regexp roots that match nothing): the empty table in every format
    for d in ("'nomatch.*' rx", "'nomatch.*' rx, 'zz[0-9]' rx"):
        for path in ('stream', 'ordered'):
            yield {'dir': d, 'path': path, 'cases': [{'cols': ci, 'fmt': fmt, 'limit': lim} for ci in (0, 1) for fmt in FORMATS for lim in (None, 2)]}
    # a column selected more than once
    for d in ('d1', 'd2', 'plain'):
        for path in ('stream', 'ordered', 'grouped'):
            yield {'dir': d, 'path': path, 'cases': [{'cols': k, 'fmt': fmt, 'limit': None} for k in DUPS for fmt in FORMATS]}


def single(case):
    return {'dir': case['dir'], 'path': case['path'], 'cases': [{k: case[k] for k in ('cols', 'fmt', 'limit', 'lit') if k in case}]}


class TableParser(HTMLParser):
    def __init__(self):
        super().__init__(convert_charrefs=True)
        self.stack, self.rows, self.err, self.cell = [], [], None, None
        self.seen = []

    def handle_starttag(self, tag, attrs):
        allowed = {'html': [], 'body': ['html'], 'table': ['html', 'body'], 'tr': ['html', 'body', 'table'],
                   'td': ['html', 'body', 'table', 'tr']}
        if tag not in allowed or self.stack != allowed[tag] or attrs:
            self.err = self.err or 'unexpected <%s> inside %s' % (tag, '/'.join(self.stack))
            return
        self.stack.append(tag)
        self.seen.append(tag)
        if tag == 'tr':
            self.rows.append([])
        if tag == 'td':
            self.cell = ''

    def handle_endtag(self, tag):
        if not self.stack or self.stack[-1] != tag:
            self.err = self.err or 'unbalanced </%s>' % tag
            return
        self.stack.pop()
        if tag == 'td':
            self.rows[-1].append(self.cell)
            self.cell = None

    def handle_data(self, data):
        if self.cell is None:
            if data.strip():
                self.err = self.err or 'text outside a cell: %r' % data[:30]
        else:
            self.cell += data

    def handle_comment(self, data):
        self.err = self.err or 'comment'

    def handle_decl(self, decl):
        self.err = self.err or 'declaration'

    def unknown_decl(self, data):
        self.err = self.err or 'declaration'

    def handle_pi(self, data):
        self.err = self.err or 'processing instruction'


def decode(fmt, text, ncols):
    """-> (rows, error)"""
    if fmt == 'json':
        try:
            data = json.loads(text)
        except ValueError as ex:
            return None, 'invalid JSON: %s' % ex
        if not isinstance(data, list) or not all(isinstance(o, dict) for o in data):
            return None, 'not an array of objects'
        if any(len(o) != ncols or not all(isinstance(v, str) for v in o.values()) for o in data):
            return None, 'object arity/values'
        keys = {tuple(sorted(o)) for o in data}
        if len(keys) > 1:
            return None, 'key set varies'
        ks = sorted(data[0]) if data else []
        return [tuple(o[k] for k in ks) for o in data], None
    if fmt == 'csv':
        try:
            rows = list(csv.reader(io.StringIO(text, newline=''), strict=True))
        except csv.Error as ex:
            return None, 'invalid CSV: %s' % ex
        if any(len(r) != ncols for r in rows):
            return None, 'CSV arity %r' % [len(r) for r in rows][:5]
        return [tuple(r) for r in rows], None
    if fmt == 'html':
        p = TableParser()
        p.feed(text)
        p.close()
        if p.err or p.stack:
            return None, 'HTML: %s' % (p.err or 'unclosed ' + '/'.join(p.stack))
        if p.seen[:3] != ['html', 'body', 'table'] or p.seen.count('table') != 1:
            return None, 'HTML skeleton'
        if any(len(r) != ncols for r in p.rows):
            return None, 'HTML arity'
        return [tuple(r) for r in p.rows], None
    if fmt == 'tabs':
        lines = text.split('\n')
        if lines and lines[-1] == '':
            lines.pop()
        rows = [tuple(l.split('\t')) for l in lines]
        if any(len(r) != ncols for r in rows):
            return None, 'tabs arity'
        return rows, None
    if fmt == 'lines':
        vals = text.split('\n')
        # every row is terminated by an extra newline
        rows, i = [], 0
        while i + ncols < len(vals):
            rows.append(tuple(vals[i:i + ncols]))
            i += ncols
        if vals[i:] != ['']:
            return None, 'lines remainder %r' % vals[i:][:3]
        return rows, None
    raise ValueError(fmt)


def same_table(ref, got, ordered, fmt):
    if len(ref) != len(got):
        return False
    if not ref:
        return True
    n = len(ref[0])
    if any(len(r) != n for r in got):
        return False
    if fmt != 'json':
        return (list(got) == list(ref)) if ordered else (sorted(got) == sorted(ref))
    # JSON objects lose the column order: find the column permutation by matching whole columns, then compare rows
    key = (lambda col: tuple(col)) if ordered else (lambda col: tuple(sorted(col)))
    refcols = [key([r[i] for r in ref]) for i in range(n)]
    gotcols = [key([r[i] for r in got]) for i in range(n)]
    perm, used = [], set()
    for rc in refcols:
        j = next((j for j in range(n) if j not in used and gotcols[j] == rc), None)
        if j is None:
            return False
        used.add(j)
        perm.append(j)
    g = [tuple(r[j] for j in perm) for r in got]
    if (g == list(ref)) if ordered else (sorted(g) == sorted(ref)):
        return True
    if n <= 6:      # identical columns may have been matched the wrong way round: small tables are searched completely
        for pm in itertools.permutations(range(n)):
            g = [tuple(r[i] for i in pm) for r in got]
            if (g == list(ref)) if ordered else (sorted(g) == sorted(ref)):
                return True
    return False


SPECIAL = {'json': '"\\\n\t', 'csv': ',"\n\r', 'html': '<>&"\'', 'tabs': '', 'lines': ''}


def eval_group(env, group, tier):
    root = env.newdir('c9')
    core.materialise(root, dirs())
    outs = []
    try:
        d, path = group['dir'], group['path']
        for c in group['cases']:
            cols = COLSETS[c['cols']] if isinstance(c['cols'], int) else DUPS[c['cols']] if c['cols'] in DUPS else (LONG5 if c['cols'] == 'long5' else LONGSEL)
            fmt = c['fmt']
            if fmt in ('tabs', 'lines') and d in ('many', 'd2', 'r1, r2', 'nl'):
                continue
            gcols = cols if isinstance(c['cols'], int) or c['cols'] not in DUPS else [k for i, k in enumerate(cols) if k not in cols[:i] and k[0] not in "'5"]
            if path == 'stream':
                sel, tail, ordered = cols, '', False
            elif path == 'ordered':
                sel, tail, ordered = cols, ' order by name desc', True
            elif path.startswith('ordered-const:'):
                sel, tail, ordered = cols, ' order by ' + path.split(':', 1)[1], False
            elif path == 'aggregate':
                sel, tail, ordered = ['count(*)', 'sum(size)', "'a<b>&c,\"d e'"][:len(cols) + 1], '', False
            elif path == 'grouped':
                sel, tail, ordered = cols + ['count(*)'], ' group by ' + ', '.join(gcols), False
            elif path == 'grouped-tied':      # every group has one row: the sort keys all tie and the order is the order of the groups
                sel, tail, ordered = cols + ['count(*)'], ' group by ' + ', '.join(cols) + ' order by count(*)', True
            else:
                sel, tail, ordered = cols + ['count(*)'], ' group by ' + ', '.join(cols) + ' order by name', True
            if c['limit']:
                tail += ' limit %d' % c['limit']
            if c.get('lit') == 'case-twins':       # two constant columns whose texts differ in letter case only
                sel = ["'Total'", "'TOTAL'"] + sel
            elif c.get('lit'):
                sel = [c['lit']] + sel
            base = ', '.join(sel) + ' from ' + d + tail
            ref = env.run([base + ' into list'], cwd=root)
            refrows = ref.rows(len(sel))
            if len(sel) == 1 and refrows is not None:
                refrows = [(v,) for v in refrows]
            case = dict(c, dir=d, path=path, query=base + ' into ' + fmt)
            r = {'case': case, 'layer': fmt + ':' + path}
            if ref.rc != 0 or refrows is None:
                raise core.MachineryError('C09 reference query failed: %r %r' % (base, ref.brief()))
            if path.startswith('grouped') and c['limit']:
                again = [env.run([base + ' into list'], cwd=root).out for _ in range(2)]
                if any(a != ref.out for a in again):
                    r.update(status='viol', cls='grouped-limit:rows-vary-between-runs', nt=True, sig=('vary', path),
                             detail={'query': base + ' into list', 'run1': ref.out[:80].decode('utf-8', 'replace'), 'run2': [a for a in again if a != ref.out][0][:80].decode('utf-8', 'replace')})
                    outs.append(r)
                    continue
            o = env.run([base + ' into ' + fmt], cwd=root)
            r['nt'] = any(ch in v for row in refrows for v in row for ch in SPECIAL[fmt]) or len(refrows) > 1
            r['trans'] = max(1, len(refrows))
            if o.timeout or o.rc != 0 or o.err:
                r.update(status='viol', cls=fmt + ':status', detail=dict(o.brief(), query=case['query']), sig=('err',))
                outs.append(r)
                continue
            try:
                text = o.out.decode('utf-8')
            except UnicodeDecodeError:
                r.update(status='viol', cls=fmt + ':not-utf8', detail={'query': case['query']}, sig=('utf8',))
                outs.append(r)
                continue
            rows, err = decode(fmt, text, len(sel))
            if err:
                r.update(status='viol', cls='%s:malformed:%s' % (fmt, path), detail={'query': case['query'], 'error': err, 'head': text[:200]},
                         sig=('malformed', fmt, path))
            elif c['limit'] and not ordered and (path == 'stream' or path.startswith('ordered-const:')):
                # an unordered limited table may pick any rows: compare size and membership against the unlimited table
                full = env.run([', '.join(sel) + ' from ' + d + ' into list'], cwd=root).rows(len(sel))
                if len(sel) == 1:
                    full = [(v,) for v in full]
                ok = len(rows) == len(refrows) and all(any(same_table([f], [g], True, fmt) for f in full) for g in rows)
                if ok:
                    r.update(status='ok', sig=(fmt, len(rows)))
                else:
                    r.update(status='viol', cls='%s:table-differs:%s' % (fmt, path), detail={'query': case['query'], 'rows': rows[:3]}, sig=('tbl', fmt))
            elif not same_table(refrows, rows, ordered, fmt):
                diff = [x for x in rows if x not in refrows][:3]
                r.update(status='viol', cls='%s:table-differs:%s' % (fmt, path),
                         detail={'query': case['query'], 'n_list': len(refrows), 'n_fmt': len(rows), 'not_in_list': diff}, sig=('tbl', fmt, path))
            else:
                r.update(status='ok', sig=(fmt, len(rows)))
            outs.append(r)
    finally:
        env.rmtree(root)
    return outs
