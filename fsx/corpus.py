"""Corpus of valid queries generated from the documented grammar so that every clause, root
option, operator family, aggregate, scalar function and output format occurs (C10b, C11).
A query is a list of word tokens; rendering joins them with single spaces."""
import itertools

COLS = [['name'], ['name', ',', 'size'], ['path', ',', 'ext', ',', 'is_dir'], ['lower(name)', ',', 'size'],
        ['name', ',', 'size', '+', '1'], ['upper(ext)'], ['substr(name,', '1,', '3)', ',', 'length(name)']]
ROOTS = [[], ['from', '.'], ['from', 'sub'], ['from', '.', 'maxdepth', '2'], ['from', '.', 'mindepth', '1', 'maxdepth', '3'],
         ['from', 'sub', 'dfs'], ['from', '.', 'depth', '1', ',', 'sub', 'bfs'], ['from', '.', 'archives'], ['from', '.', 'symlinks'],
         ['from', '.', 'gitignore'], ['from', '.', 'nohgignore', 'nodockerignore']]
WHERES = [[], ['where', 'size', '>', '1'], ['where', 'size', 'gte', '2', 'and', 'name', 'like', '%.txt'],
          ['where', 'name', '=', '*.txt', 'or', 'is_dir', '=', 'true'], ['where', 'not', '(', 'size', '<', '3', 'or', 'ext', '!=', 'rs', ')'],
          ['where', 'size', 'between', '1', 'and', '10'], ['where', 'name', '=~', '^a', 'and', 'is_file'],
          ['where', '{', 'name', '===', 'a.txt', '}', 'or', 'size', '+', '1', '>', '2'], ['where', 'modified', '>', '2000-01-01'],
          ['where', 'name', 'not', 'like', '%x%', 'and', 'length(name)', '<=', '5'], ['where', 'ext', 'ne', 'rs', 'and', 'size', 'ne', '0']]
TAILS = [[], ['order', 'by', 'name'], ['order', 'by', '1', 'desc'], ['order', 'by', 'size', 'desc', ',', 'name'], ['limit', '2'],
         ['order', 'by', 'name', 'limit', '3'], ['into', 'json'], ['order', 'by', '1', 'limit', '1', 'into', 'csv'],
         ['into', 'html'], ['limit', '1', 'into', 'lines'], ['into', 'tabs'], ['order', 'by', 'name', 'asc', 'into', 'list']]
AGGS = [['count(*)'], ['count(*)', ',', 'sum(size)'], ['min(size)', ',', 'max(size)', ',', 'avg(size)'], ['ext', ',', 'count(*)']]
GROUPS = [['group', 'by', 'ext', 'order', 'by', '1'], ['group', 'by', 'ext', 'order', 'by', 'ext'], ['group', 'by', 'ext', 'order', 'by', 'ext', 'desc', 'into', 'json']]


def queries():
    """Deterministic list of ~200 valid queries (as token lists)."""
    out = []
    # cover every element at least once with the others cycling
    n = max(len(COLS), len(ROOTS), len(WHERES), len(TAILS))
    for i in range(n * 3):
        c = COLS[i % len(COLS)]
        r = ROOTS[(i * 5 + i // n) % len(ROOTS)]
        w = WHERES[(i * 3 + 1) % len(WHERES)]
        t = TAILS[(i * 7 + 2) % len(TAILS)]
        out.append(c + r + w + t)
    for c, r in itertools.product(COLS[:3], ROOTS):
        out.append(c + r)
    for w in WHERES[1:]:
        out.append(['name'] + ['from', '.'] + w)
        out.append(['select', 'path'] + w + ['order', 'by', 'path'])
    for t in TAILS[1:]:
        out.append(['name', ',', 'size', 'from', '.'] + t)
    for a in AGGS[:3]:
        for w in WHERES[:3]:
            out.append(a + ['from', '.'] + w)
    for g in GROUPS:
        out.append(AGGS[3] + ['from', '.'] + g)
        out.append(AGGS[3] + ['from', '.', 'where', 'size', '>', '0'] + g)
    # from at the end, implicit root with options, curly function brackets
    out.append(['name', 'where', 'size', '>', '1', 'from', '.', 'maxdepth', '2'])
    out.append(['name', 'depth', '1'])
    out.append(['lower{name}', ',', 'size', 'from', '.'])
    seen, res = set(), []
    for q in out:
        k = ' '.join(q)
        if k not in seen:
            seen.add(k)
            res.append(q)
    return res


def corpus_tree():
    from fsx.core import D, F, L
    return {'a.txt': F(3, mtime=1600000000), 'b.rs': F(10, mtime=1600000100), 'c': F(0), 'Long Name.TXT': F(7),
            'sub': D({'x.txt': F(1), 'y.md': F(5), 'deep': D({'z.txt': F(2)})}), 'e': D({}), 'ln': L('sub')}
