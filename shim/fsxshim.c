/* fsxshim: LD_PRELOAD environment model for the fselect explorer.
 *
 * Default = pure pass-through.  Knobs (environment variables):
 *   FSX_READDIR=sorted|rev|perm:<k>   order in which readdir64 returns the entries of each
 *                                     directory: entries are read eagerly from the real call,
 *                                     sorted by name, then the k-th permutation (lexicographic
 *                                     rank, taken modulo n!) is replayed.  "." and ".." first.
 *   FSX_STDOUT_BUDGET=<k>             write/writev on fd 1 succeed for exactly k bytes in total
 *                                     (short write at the boundary), then fail with EPIPE.
 *   FSX_FAIL=<call>:<path-suffix>:<errno>[:<after>][;...]
 *                                     call in opendir|open|read|readdir|readlink|realpath;
 *                                     errno by name (EACCES ENOENT ENOTDIR EIO ELOOP);
 *                                     read: fail after <after> bytes of a file opened under a
 *                                     matching path; readdir: fail after <after> entries.
 *   FSX_NOW=<epoch seconds>           clock_gettime(CLOCK_REALTIME), gettimeofday, time.
 *   FSX_LOG=<file>                    one line per intercepted decision (append).
 */
#define _GNU_SOURCE
#include <dirent.h>
#include <dlfcn.h>
#include <errno.h>
#include <fcntl.h>
#include <stdarg.h>
#include <stdio.h>
#include <stdlib.h>
#include <string.h>
#include <sys/time.h>
#include <sys/types.h>
#include <sys/uio.h>
#include <time.h>
#include <unistd.h>

static int inited = 0;
static int rd_mode = 0;            /* 0 pass, 1 sorted, 2 rev, 3 perm */
static unsigned long long rd_perm = 0;
static long long out_budget = -1;  /* -1 = unlimited */
static long long fake_now = -1;
static int logfd = -1;

#define MAXFAIL 16
static struct { char call[12]; char suffix[256]; int err; long after; } fails[MAXFAIL];
static int nfails = 0;

#define MAXFD 1024
static long fd_read_after[MAXFD];   /* -1 = not tracked; else bytes still allowed */
static int fd_read_errno[MAXFD];

static void logf_(const char *fmt, ...) {
    if (logfd < 0) return;
    char buf[512];
    va_list ap; va_start(ap, fmt);
    int n = vsnprintf(buf, sizeof buf, fmt, ap);
    va_end(ap);
    if (n > 0) { ssize_t (*w)(int, const void *, size_t) = dlsym(RTLD_NEXT, "write"); w(logfd, buf, n > (int)sizeof buf ? sizeof buf : n); }
}

static int errno_by_name(const char *s) {
    if (!strcmp(s, "EACCES")) return EACCES;
    if (!strcmp(s, "ENOENT")) return ENOENT;
    if (!strcmp(s, "ENOTDIR")) return ENOTDIR;
    if (!strcmp(s, "EIO")) return EIO;
    if (!strcmp(s, "ELOOP")) return ELOOP;
    if (!strcmp(s, "EPERM")) return EPERM;
    return atoi(s) ? atoi(s) : EIO;
}

static void init(void) {
    if (inited) return;
    inited = 1;
    for (int i = 0; i < MAXFD; i++) fd_read_after[i] = -1;
    const char *s;
    if ((s = getenv("FSX_LOG"))) {
        int (*o)(const char *, int, ...) = dlsym(RTLD_NEXT, "open");
        logfd = o(s, O_WRONLY | O_CREAT | O_APPEND | O_CLOEXEC, 0644);
    }
    if ((s = getenv("FSX_READDIR"))) {
        if (!strcmp(s, "sorted")) rd_mode = 1;
        else if (!strcmp(s, "rev")) rd_mode = 2;
        else if (!strncmp(s, "perm:", 5)) { rd_mode = 3; rd_perm = strtoull(s + 5, 0, 10); }
    }
    if ((s = getenv("FSX_STDOUT_BUDGET"))) out_budget = atoll(s);
    if ((s = getenv("FSX_NOW"))) fake_now = atoll(s);
    if ((s = getenv("FSX_FAIL"))) {
        char *dup = strdup(s), *save = 0;
        for (char *tok = strtok_r(dup, ";", &save); tok && nfails < MAXFAIL; tok = strtok_r(0, ";", &save)) {
            char *p1 = strchr(tok, ':'); if (!p1) continue; *p1++ = 0;
            char *p2 = strrchr(p1, ':'); if (!p2) continue;
            long after = 0;
            /* optional trailing :<after> (numeric) */
            char *endp; long v = strtol(p2 + 1, &endp, 10);
            if (*endp == 0 && endp != p2 + 1) { after = v; *p2 = 0; p2 = strrchr(p1, ':'); if (!p2) continue; }
            *p2++ = 0;
            snprintf(fails[nfails].call, sizeof fails[nfails].call, "%s", tok);
            snprintf(fails[nfails].suffix, sizeof fails[nfails].suffix, "%s", p1);
            fails[nfails].err = errno_by_name(p2);
            fails[nfails].after = after;
            nfails++;
        }
        free(dup);
    }
}

static int ends_with(const char *s, const char *suf) {
    size_t a = strlen(s), b = strlen(suf);
    /* ignore trailing slashes of s */
    while (a > 1 && s[a - 1] == '/') a--;
    if (b > a) return 0;
    if (strncmp(s + a - b, suf, b)) return 0;
    /* must match at a path-component boundary */
    return a == b || s[a - b - 1] == '/' || suf[0] == '/';
}

static int find_fail(const char *call, const char *path) {
    for (int i = 0; i < nfails; i++)
        if (!strcmp(fails[i].call, call) && path && ends_with(path, fails[i].suffix)) return i;
    return -1;
}

/* ---------------------------------------------------------------- directories */

struct dstate { DIR *d; struct dirent64 *ents; int n, pos; int fail_after, fail_errno; struct dstate *next; char path[512]; };
static struct dstate *dstates = 0;

static struct dstate *dfind(DIR *d) { for (struct dstate *s = dstates; s; s = s->next) if (s->d == d) return s; return 0; }

static int cmp_name(const void *a, const void *b) {
    return strcmp(((const struct dirent64 *)a)->d_name, ((const struct dirent64 *)b)->d_name);
}

DIR *opendir(const char *name) {
    init();
    DIR *(*real)(const char *) = dlsym(RTLD_NEXT, "opendir");
    int f = find_fail("opendir", name);
    if (f >= 0) { logf_("opendir %s -> errno %d\n", name, fails[f].err); errno = fails[f].err; return 0; }
    DIR *d = real(name);
    if (d && (rd_mode || find_fail("readdir", name) >= 0)) {
        struct dstate *s = calloc(1, sizeof *s);
        s->d = d; s->n = -1; s->fail_after = -1;
        snprintf(s->path, sizeof s->path, "%s", name);
        int g = find_fail("readdir", name);
        if (g >= 0) { s->fail_after = (int)fails[g].after; s->fail_errno = fails[g].err; }
        s->next = dstates; dstates = s;
    }
    return d;
}

static void dload(struct dstate *s) {
    struct dirent64 *(*real)(DIR *) = dlsym(RTLD_NEXT, "readdir64");
    int cap = 16; s->ents = malloc(cap * sizeof *s->ents); s->n = 0;
    struct dirent64 *e;
    while ((e = real(s->d))) {
        if (s->n == cap) { cap *= 2; s->ents = realloc(s->ents, cap * sizeof *s->ents); }
        s->ents[s->n++] = *e;
    }
    if (!rd_mode) return;
    /* "." and ".." first, the rest sorted */
    int k = 0;
    for (int i = 0; i < s->n; i++) {
        if (!strcmp(s->ents[i].d_name, ".") || !strcmp(s->ents[i].d_name, "..")) {
            struct dirent64 t = s->ents[k]; s->ents[k] = s->ents[i]; s->ents[i] = t; k++;
        }
    }
    int m = s->n - k;
    struct dirent64 *v = s->ents + k;
    qsort(v, m, sizeof *v, cmp_name);
    if (rd_mode == 2) { for (int i = 0; i < m / 2; i++) { struct dirent64 t = v[i]; v[i] = v[m - 1 - i]; v[m - 1 - i] = t; } }
    if (rd_mode == 3 && m > 1) {
        /* k-th permutation in lexicographic rank (mod m!) via factorial number system */
        unsigned long long fact = 1; int lim = m;
        for (int i = 2; i <= m; i++) { if (fact > (~0ULL) / i) { lim = i - 1; break; } fact *= i; }
        unsigned long long r = rd_perm % fact;
        struct dirent64 *tmp = malloc(m * sizeof *tmp); memcpy(tmp, v, m * sizeof *tmp);
        int used = m - lim;  /* leading elements left in sorted order if m! overflows */
        int *avail = malloc(m * sizeof(int)); int na = 0;
        for (int i = used; i < m; i++) avail[na++] = i;
        unsigned long long f = fact;
        for (int i = 0; i < lim; i++) {
            f /= (lim - i);
            int idx = (int)(r / f); r %= f;
            v[used + i] = tmp[avail[idx]];
            memmove(avail + idx, avail + idx + 1, (na - idx - 1) * sizeof(int)); na--;
        }
        free(avail); free(tmp);
    }
}

struct dirent64 *readdir64(DIR *d) {
    init();
    struct dirent64 *(*real)(DIR *) = dlsym(RTLD_NEXT, "readdir64");
    struct dstate *s = dfind(d);
    if (!s) return real(d);
    if (s->n < 0) dload(s);
    /* entries other than . and .. count towards fail_after */
    if (s->fail_after >= 0) {
        int real_seen = 0;
        for (int i = 0; i < s->pos; i++) if (strcmp(s->ents[i].d_name, ".") && strcmp(s->ents[i].d_name, "..")) real_seen++;
        if (real_seen >= s->fail_after && s->fail_after >= 0) {
            logf_("readdir %s -> errno %d after %d\n", s->path, s->fail_errno, real_seen);
            s->fail_after = -1; s->pos = s->n;   /* report the error once, then end of stream */
            errno = s->fail_errno; return 0;
        }
    }
    if (s->pos >= s->n) return 0;
    return &s->ents[s->pos++];
}

struct dirent *readdir(DIR *d) { return (struct dirent *)readdir64(d); }

int closedir(DIR *d) {
    int (*real)(DIR *) = dlsym(RTLD_NEXT, "closedir");
    struct dstate **pp = &dstates;
    while (*pp) { if ((*pp)->d == d) { struct dstate *s = *pp; *pp = s->next; free(s->ents); free(s); break; } pp = &(*pp)->next; }
    return real(d);
}

/* ---------------------------------------------------------------- files */

static int open_common(const char *name, const char *path, int flags, mode_t mode) {
    init();
    int (*real)(const char *, int, ...) = dlsym(RTLD_NEXT, name);
    int f = find_fail("open", path);
    if (f >= 0) { logf_("open %s -> errno %d\n", path, fails[f].err); errno = fails[f].err; return -1; }
    int fd = real(path, flags, mode);
    if (fd >= 0 && fd < MAXFD) {
        fd_read_after[fd] = -1;
        int g = find_fail("read", path);
        if (g >= 0) { fd_read_after[fd] = fails[g].after; fd_read_errno[fd] = fails[g].err; }
    }
    return fd;
}

int open64(const char *path, int flags, ...) {
    mode_t mode = 0;
    if (flags & (O_CREAT | O_TMPFILE)) { va_list ap; va_start(ap, flags); mode = va_arg(ap, mode_t); va_end(ap); }
    return open_common("open64", path, flags, mode);
}

int open(const char *path, int flags, ...) {
    mode_t mode = 0;
    if (flags & (O_CREAT | O_TMPFILE)) { va_list ap; va_start(ap, flags); mode = va_arg(ap, mode_t); va_end(ap); }
    return open_common("open", path, flags, mode);
}

int close(int fd) {
    int (*real)(int) = dlsym(RTLD_NEXT, "close");
    if (fd >= 0 && fd < MAXFD) fd_read_after[fd] = -1;
    return real(fd);
}

ssize_t read(int fd, void *buf, size_t n) {
    init();
    ssize_t (*real)(int, void *, size_t) = dlsym(RTLD_NEXT, "read");
    if (fd >= 0 && fd < MAXFD && fd_read_after[fd] >= 0) {
        if (fd_read_after[fd] == 0) { logf_("read fd %d -> errno %d\n", fd, fd_read_errno[fd]); errno = fd_read_errno[fd]; return -1; }
        if ((long)n > fd_read_after[fd]) n = fd_read_after[fd];
        ssize_t r = real(fd, buf, n);
        if (r > 0) fd_read_after[fd] -= r;
        return r;
    }
    return real(fd, buf, n);
}

ssize_t readlink(const char *path, char *buf, size_t n) {
    init();
    ssize_t (*real)(const char *, char *, size_t) = dlsym(RTLD_NEXT, "readlink");
    int f = find_fail("readlink", path);
    if (f >= 0) { logf_("readlink %s -> errno %d\n", path, fails[f].err); errno = fails[f].err; return -1; }
    return real(path, buf, n);
}

char *realpath(const char *path, char *resolved) {
    init();
    char *(*real)(const char *, char *) = dlsym(RTLD_NEXT, "realpath");
    int f = find_fail("realpath", path);
    if (f >= 0) { logf_("realpath %s -> errno %d\n", path, fails[f].err); errno = fails[f].err; return 0; }
    return real(path, resolved);
}

/* ---------------------------------------------------------------- stdout budget */

static ssize_t budget_write(int fd, const void *buf, size_t n) {
    ssize_t (*real)(int, const void *, size_t) = dlsym(RTLD_NEXT, "write");
    if (fd != 1 || out_budget < 0) return real(fd, buf, n);
    if (out_budget == 0) { logf_("write(1,%zu) -> EPIPE\n", n); errno = EPIPE; return -1; }
    size_t k = n;
    if ((long long)k > out_budget) k = (size_t)out_budget;
    ssize_t r = real(fd, buf, k);
    logf_("write(1,%zu) -> %zd (budget %lld)\n", n, r, out_budget);
    if (r > 0) out_budget -= r;
    return r;
}

ssize_t write(int fd, const void *buf, size_t n) { init(); return budget_write(fd, buf, n); }

ssize_t writev(int fd, const struct iovec *iov, int cnt) {
    init();
    ssize_t (*real)(int, const struct iovec *, int) = dlsym(RTLD_NEXT, "writev");
    if (fd != 1 || out_budget < 0) return real(fd, iov, cnt);
    /* emulate with single writes so the budget is exact */
    ssize_t total = 0;
    for (int i = 0; i < cnt; i++) {
        if (iov[i].iov_len == 0) continue;
        ssize_t r = budget_write(fd, iov[i].iov_base, iov[i].iov_len);
        if (r < 0) return total ? total : -1;
        total += r;
        if ((size_t)r < iov[i].iov_len) break;
    }
    return total;
}

/* ---------------------------------------------------------------- clock */

int clock_gettime(clockid_t c, struct timespec *ts) {
    init();
    int (*real)(clockid_t, struct timespec *) = dlsym(RTLD_NEXT, "clock_gettime");
    if (fake_now >= 0 && c == CLOCK_REALTIME) { ts->tv_sec = fake_now; ts->tv_nsec = 0; return 0; }
    return real(c, ts);
}

int gettimeofday(struct timeval *tv, void *tz) {
    init();
    int (*real)(struct timeval *, void *) = dlsym(RTLD_NEXT, "gettimeofday");
    if (fake_now >= 0 && tv) { tv->tv_sec = fake_now; tv->tv_usec = 0; return 0; }
    return real(tv, tz);
}

time_t time(time_t *t) {
    init();
    time_t (*real)(time_t *) = dlsym(RTLD_NEXT, "time");
    if (fake_now >= 0) { if (t) *t = fake_now; return fake_now; }
    return real(t);
}
