#!/usr/bin/env python3
"""Regenerates /verif/MANIFEST.json from the property modules that exist in fsx/props.
A property is claimed iff its module defines CLAIM = True (default True when the module exists)."""
import importlib
import json
import os
import sys

HERE = os.path.dirname(os.path.dirname(os.path.abspath(__file__)))
sys.path.insert(0, HERE)

BASELINE = ("cd /repo && cargo nextest run --workspace --no-fail-fast --offline --test-threads 8 "
            "|| cargo test --workspace --no-fail-fast --offline")

TECH = {
 'default': 'bounded-exhaustive enumeration of inputs on the real binary, compared with a reference model on every case (model checking of a sequential program: every input shape up to a stated bound)',
 'C01': 'explicit enumeration of all tree shapes x root spellings x depth windows x traversal modes x readdir arrival orders (LD_PRELOAD scheduler) against a walk model; chroot jail for the root /',
 'C03': 'breadth-first enumeration of all Boolean formulas up to a connective bound, set-algebra model, differential atom semantics',
 'C06': 'enumeration of every LIMIT value for each (tree, query) pair and of every readdir permutation (the schedules that decide tie eviction) against a top-N model',
 'C10': 'breadth-first exploration of the token-sequence tree (states = sequences, transitions = append edges) through an in-crate batch hook inside a chroot jail, flagged states and a stratum revalidated on the fresh CLI',
 'C11': 'complete exploration of the rendering lattice of each base query (split sets, case, aliases, optional tokens); differential oracle on the parsed Query dump and rows',
 'C15': 'enumeration of all expression trees up to an operator bound and of all ordered pairs of an expression pool, float evaluator model, differential independence oracle',
 'C17': 'deviation-bounded fault enumeration: every single (thorough: pair of) failing directory/file position through real permissions and an LD_PRELOAD fault injector; every stdout close offset',
 'C18': 'enumeration of all link positions x targets x spellings on all small base trees and cyclic pairs, model = walk of the real directory graph, horizon for termination',
 'C19': 'fault enumeration: every truncation length and every single-byte corruption of a zip archive, every LIMIT value, controlled clock over all days of month',
}


def level_text(mod):
    what = {'model_checking': 'Every state of the bounded space below is generated and executed on the real binary, and every execution is compared with the model (all model traces are validated against the implementation, none is sampled)',
            'exploration': 'The finite input space below is enumerated completely (no sampling) and every case is executed on the real binary and compared with a reference model written from the statement',
            'fault_enumeration': 'Every fault position of the space below is injected, one at a time (thorough: also pairs), into runs of the real binary; every run is compared with the fault-free run and the model'}[mod.LEVEL]
    return what + '. Space: ' + mod.RULE + '. Outside these bounds nothing is claimed; a counterexample, if any exists inside them, is found on every run because the enumeration order is fixed.'


props = [json.loads(l) for l in open(os.path.join(HERE, 'properties.jsonl'))]
checks, na = [], []
hooks_commits = []
try:
    hooks_commits = [l.split()[0] for l in open(os.path.join(HERE, 'hooks', 'COMMITS')).read().splitlines() if l.strip()]
except OSError:
    pass
for p in props:
    pid = p['id']
    try:
        mod = importlib.import_module('fsx.props.%s' % pid.lower())
    except ImportError:
        na.append({'property_id': pid, 'reason': 'no check built yet (planned in DESIGN.md section 5); not a statement that the technique cannot apply'})
        continue
    if not getattr(mod, 'CLAIM', True):
        na.append({'property_id': pid, 'reason': getattr(mod, 'NA_REASON', 'check not yet sound')})
        continue
    checks.append({
        'property_id': pid,
        'quick_cmd': './check %s --tier quick' % pid,
        'thorough_cmd': './check %s --tier thorough' % pid,
        'evidence_file': '/verif/evidence/%s.json' % pid,
        'replay_cmd_template': './check replay {path}',
        'engine': 'fsx-explorer',
        'level_claimed': {'category': mod.LEVEL, 'text': level_text(mod),
                          'design_ref': 'DESIGN.md section 5, ' + pid},
        'level_note': '; '.join(getattr(mod, 'ASSUMPTIONS', [])) or 'trusted base: Python reference model in fsx/props, the OS (lstat/readdir), the fresh-CLI transport',
        'technique': TECH.get(pid, TECH['default']),
    })
man = {
    'version': 1,
    'setup_cmd': './check setup',
    'hooks': {
        'guard': 'cargo feature verif-hooks',
        'enable': 'cargo build --offline --features verif-hooks (done by ./check; falls back to a plain build when the feature is absent)',
        'baseline_off_cmd': BASELINE,
        'source_commits': hooks_commits,
        'add_only': True,
    },
    'engines': [
        {'name': 'fsx-explorer', 'path': '/verif/fsx', 'serves_properties': [c['property_id'] for c in checks],
         'kind_free_text': 'Python 3 (stdlib only) bounded-exhaustive explorer: enumerates finite case spaces completely, runs the real fselect binary on every case (fresh process, chroot jail, LD_PRELOAD environment shim, in-crate batch hook) and compares with reference models'},
        {'name': 'fsxshim', 'path': '/verif/shim/fsxshim.c', 'serves_properties': ['C05', 'C06', 'C13', 'C17', 'C19'],
         'kind_free_text': 'LD_PRELOAD environment model: readdir order, stdout byte budget, injected errno, fake clock'},
    ],
    'checks': checks,
    'not_applicable': na,
    'notes': ('See DESIGN.md. Exit 3 + MACHINERY-ERROR means the check could not run; it is never a verdict. Known findings: /verif/known_findings.json '
              '(committed; never written by a check): entries "fixed: property=<id> <commit> <what>" suppress nothing; the one open entry, '
              'C01-dfs-descriptor-per-level, makes ./check C01 print "KNOWN-FINDING: property=C01 ..." for exactly that case and exit 0. '
              'FSX_BUDGET_SCALE=<f> stretches the wall budget of a tier on a loaded machine (a tier that hits its budget reports PARTIAL coverage, not a verdict).'),
}
with open(os.path.join(HERE, 'MANIFEST.json'), 'w') as f:
    json.dump(man, f, indent=1)
print('claimed:', [c['property_id'] for c in checks])
print('not claimed:', [n['property_id'] for n in na])
