#!/usr/bin/env python3
"""Regenerates /verif/MANIFEST.json from the property modules that exist in fsx/props.
A property is claimed iff its module defines CLAIM = True (default True when the module exists)."""
import importlib
import json
import os
import sys

HERE = os.path.dirname(os.path.dirname(os.path.abspath(__file__)))
sys.path.insert(0, HERE)

BASELINE = ("cd /repo && cargo nextest run --workspace --no-fail-fast --offline --test-threads 8 "
            "|| cargo test --workspace --no-fail-fast --offline")

props = [json.loads(l) for l in open(os.path.join(HERE, 'properties.jsonl'))]
checks, na = [], []
hooks_commits = []
try:
    hooks_commits = [l.split()[0] for l in open(os.path.join(HERE, 'hooks', 'COMMITS')).read().splitlines() if l.strip()]
except OSError:
    pass
for p in props:
    pid = p['id']
    try:
        mod = importlib.import_module('fsx.props.%s' % pid.lower())
    except ImportError:
        na.append({'property_id': pid, 'reason': 'no check built yet (planned in DESIGN.md section 5); not a statement that the technique cannot apply'})
        continue
    if not getattr(mod, 'CLAIM', True):
        na.append({'property_id': pid, 'reason': getattr(mod, 'NA_REASON', 'check not yet sound')})
        continue
    checks.append({
        'property_id': pid,
        'quick_cmd': './check %s --tier quick' % pid,
        'thorough_cmd': './check %s --tier thorough' % pid,
        'evidence_file': '/verif/evidence/%s.json' % pid,
        'replay_cmd_template': './check replay {path}',
        'engine': 'fsx-explorer',
        'level_claimed': {'category': mod.LEVEL, 'text': mod.LEVEL_TEXT if hasattr(mod, 'LEVEL_TEXT') else mod.RULE,
                          'design_ref': 'DESIGN.md section 5, ' + pid},
        'level_note': '; '.join(getattr(mod, 'ASSUMPTIONS', [])) or 'trusted base: Python reference model in fsx/props, the OS (lstat/readdir), the fresh-CLI transport',
        'technique': getattr(mod, 'TECHNIQUE', 'bounded-exhaustive enumeration of inputs/environment answers on the real binary, compared with a reference model on every case'),
    })
man = {
    'version': 1,
    'setup_cmd': './check setup',
    'hooks': {
        'guard': 'cargo feature verif-hooks',
        'enable': 'cargo build --offline --features verif-hooks (done by ./check; falls back to a plain build when the feature is absent)',
        'baseline_off_cmd': BASELINE,
        'source_commits': hooks_commits,
        'add_only': True,
    },
    'engines': [
        {'name': 'fsx-explorer', 'path': '/verif/fsx', 'serves_properties': [c['property_id'] for c in checks],
         'kind_free_text': 'Python 3 (stdlib only) bounded-exhaustive explorer: enumerates finite case spaces completely, runs the real fselect binary on every case (fresh process, chroot jail, LD_PRELOAD environment shim, in-crate batch hook) and compares with reference models'},
        {'name': 'fsxshim', 'path': '/verif/shim/fsxshim.c', 'serves_properties': ['C05', 'C06', 'C13', 'C17', 'C19'],
         'kind_free_text': 'LD_PRELOAD environment model: readdir order, stdout byte budget, injected errno, fake clock'},
    ],
    'checks': checks,
    'not_applicable': na,
    'notes': 'See DESIGN.md. Exit 3 + MACHINERY-ERROR means the check could not run; it is never a verdict.',
}
with open(os.path.join(HERE, 'MANIFEST.json'), 'w') as f:
    json.dump(man, f, indent=1)
print('claimed:', [c['property_id'] for c in checks])
print('not claimed:', [n['property_id'] for n in na])
