#!/usr/bin/env python3
"""Splices docs/report0.md (with the measured tables) into DESIGN.md as section 0. Maintainer command."""
import glob, json, os, re
H = os.path.dirname(os.path.dirname(os.path.abspath(__file__)))
rep = open(os.path.join(H, 'docs', 'report0.md')).read()
rows = []
for f in sorted(glob.glob(os.path.join(H, 'evidence', 'C*.json'))):
    e = json.load(open(f)); c = e['coverage']
    rows.append('| %s | %s | %d | %d | %d | %d | %.0f s | %s |' % (e['property_id'], e['level'], c.get('cases', 0), c['evaluations'],
                c['distinct_nontrivial'], c.get('distinct_outcomes', 0), e['wall_s'], c.get('transport', '')))
rep = rep.replace('@@EVIDENCE@@', '\n'.join(rows))
import importlib, sys
sys.path.insert(0, H)
br = []
for i in range(1, 21):
    m = importlib.import_module('fsx.props.c%02d' % i)
    q, t = m.bounds('quick'), m.bounds('thorough')
    def sh(v):
        v = json.dumps(v) if not isinstance(v, str) else v
        return v.replace('|', '\\|')
    qs = '; '.join('%s = %s' % (a, sh(b)) for a, b in q.items())
    ts = '; '.join('%s = %s' % (a, sh(b)) for a, b in t.items() if q.get(a) != b) or '(same space; only the layer sizes grow)'
    br.append('| %s | %s | %s |' % (m.ID, qs, ts))
rep = rep.replace('@@BOUNDS@@', '\n'.join(br))
k = json.load(open(os.path.join(H, 'known_findings.json')))
fr = []
for e in k['findings']:
    st = e['status']
    sha = st.split()[2] if st.startswith('fixed:') else 'open'
    fr.append('| %s | %s | `%s` | %s |' % (e['id'], e['property'], sha, e.get('what', '').replace('|', '\\|')))
rep = rep.replace('@@FINDINGS@@', '\n'.join(fr))
sp = os.path.join(H, 'seeded', 'RESULTS.md')
rep = rep.replace('@@SEEDED@@', open(sp).read() if os.path.exists(sp) else '(seeding in progress)')
d = open(os.path.join(H, 'DESIGN.md')).read()
sep = '---------------------------------------------------------------------------------------\n\n'
if '## 0. Implementation report' in d:
    a = d.index('## 0. Implementation report'); b = d.index('## 1. What is verified')
    d = d[:a] + rep.rstrip() + '\n\n' + sep + d[b:]
else:
    b = d.index('## 1. What is verified')
    d = d[:b] + rep.rstrip() + '\n\n' + sep + d[b:]
open(os.path.join(H, 'DESIGN.md'), 'w').write(d)
print('DESIGN.md updated')
