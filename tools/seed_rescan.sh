#!/bin/bash
# tools/seed_rescan.sh [ONLY="id id .." in the environment: only those are re-run, the others keep their recorded result] : re-evaluates every kept seed with the current checks (quick tier of its property) and
# rewrites seeded/RESULTS.md and the detection record in each meta.json.  Applies each patch to /repo and reverts it.
cd /verif
out=seeded/RESULTS.md
echo "| seed | property | change (agent's summary) | needs | quick check of its property |" > $out
echo "|---|---|---|---|---|" >> $out
for d in seeded/C*-*/; do
  id=$(basename $d); P=${id%%-*}
  W=$(python3 -c "import json,sys; print(json.load(open('$d/meta.json')).get('detect_with',''))")
  if [ -n "$W" ]; then P=$W; fi
  if [ -n "${ONLY:-}" ] && ! echo " $ONLY " | grep -q " $id " && ! grep -q '"status": "obsolete"' $d/meta.json; then
    det=$(python3 -c "import json; print(json.load(open('$d/meta.json'))['detection']['quick']['result'])")
  elif grep -q '"status": "obsolete"' $d/meta.json; then det="OBSOLETE (see meta.json: neutralised or superseded by a later fix: commit)"; else det=$(tools/seed_detect.sh $d $P quick 2>&1 | tail -1); fi
  python3 - "$d" "$id" "$P" "$det" >> $out <<'PY'
import json,sys
d,id_,p,det=sys.argv[1:5]
m=json.load(open(d+'meta.json'))
m['detection']['quick']={'cmd':'tools/seed_detect.sh seeded/%s %s quick'%(id_,p),'result':det}
json.dump(m,open(d+'meta.json','w'),indent=1)
cut=lambda s,n:(s or '').replace('|','/').replace('\n',' ')[:n]
if m.get('detect_with'): det = 'by %s: ' % m['detect_with'] + det
print('| %s | %s | %s | %s | %s |' % (id_,m.get('property',p),cut(m.get('summary'),220),cut(m.get('needs'),160),cut(det,150)))
PY
  echo "$id $det" | cut -c1-160
done
