#!/usr/bin/env python3
"""tools/finding.py <id> <property> open|fixed:<commit> <what> [witness]  - maintainer command, never run by a check"""
import json, sys, os
p = os.path.join(os.path.dirname(os.path.dirname(os.path.abspath(__file__))), 'known_findings.json')
k = json.load(open(p))
fid, prop, st, what = sys.argv[1:5]
wit = sys.argv[5] if len(sys.argv) > 5 else ''
if st.startswith('fixed:'):
    st = 'fixed: property=%s %s %s' % (prop, st[6:], what)
k['findings'] = [e for e in k['findings'] if e['id'] != fid]
k['findings'].append({'id': fid, 'property': prop, 'status': st, 'what': what, 'witness': wit})
json.dump(k, open(p, 'w'), indent=1)
