#!/bin/sh
# runs every claimed check's quick (or $1) tier and prints one summary line each
tier=${1:-quick}
cd "$(dirname "$0")/.."
for p in $(python3 -c "import json;print(' '.join(c['property_id'] for c in json.load(open('MANIFEST.json'))['checks']))"); do
  ./check $p --tier $tier > /tmp/fsx-runall-$p.log 2>&1; rc=$?
  echo "$p rc=$rc $(tail -1 /tmp/fsx-runall-$p.log | cut -c1-200)"
  grep -E "^(VIOLATION|MACHINERY|KNOWN)" /tmp/fsx-runall-$p.log | cut -c1-300 | head -5
done
