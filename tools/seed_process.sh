#!/bin/bash
# tools/seed_process.sh <PROP> [src-worktree] [id-offset] : confirm, keep and evaluate the seeds an agent left in <worktree>/seed/{1,2}
P=$1; WT=${2:-/tmp/wt-$P}; OFF=${3:-0}
cd /verif; mkdir -p seeded
for k in 1 2 3; do
  S=$WT/seed/$k
  [ -f $S/patch.diff ] || continue
  id=$P-$((k+OFF))
  conf=$(tools/seed_confirm.sh $S 2>&1 | tail -1)
  echo "$id confirm: $conf"
  case "$conf" in CONFIRMED*) ;; *) echo -e "$id\t$P\trejected\t$conf" >> seeded/REJECTED.tsv; continue;; esac
  mkdir -p seeded/$id; cp $S/patch.diff $S/demo.sh seeded/$id/; cp $S/meta.json seeded/$id/meta.agent.json 2>/dev/null
  if [ -n "${SKIP_DETECT:-}" ]; then det="pending (run tools/seed_rescan.sh)"; else det=$(tools/seed_detect.sh seeded/$id $P quick 2>&1 | tail -1); fi
  echo "$id detect(quick): $det"
  python3 - "$id" "$P" "$conf" "$det" <<'PY'
import json,sys,os
id_,p,conf,det=sys.argv[1:5]
d='/verif/seeded/'+id_
try: a=json.load(open(d+'/meta.agent.json'))
except Exception: a={}
m={'id':id_,'property':p,'summary':a.get('summary'),'needs':a.get('needs'),'files_touched':a.get('files_touched'),
   'source':'independent sub-agent given only the property text and a scratch worktree',
   'confirmed':{'cmd':'tools/seed_confirm.sh seeded/%s'%id_,'result':conf},
   'detection':{'quick':{'cmd':'tools/seed_detect.sh seeded/%s %s quick'%(id_,p),'result':det}}}
json.dump(m,open(d+'/meta.json','w'),indent=1)
if os.path.exists(d+'/meta.agent.json'): os.remove(d+'/meta.agent.json')
PY
done
