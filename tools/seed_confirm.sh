#!/bin/bash
# tools/seed_confirm.sh <seed-dir> : confirms in a scratch worktree that the change compiles, passes the
# repository's own tests, and that its demonstration passes without and fails with the change.
# Prints one line: CONFIRMED or REJECTED <why>.  Scratch worktree: /tmp/wt-confirm (removed afterwards).
set -u
S=$(realpath "$1"); WT=/tmp/wt-confirm; export CARGO_NET_OFFLINE=true CARGO_TARGET_DIR=/tmp/wt-confirm-target
git -C /repo worktree remove --force $WT >/dev/null 2>&1; rm -rf $WT
git -C /repo worktree add -q --detach $WT HEAD || { echo "REJECTED worktree"; exit 2; }
cd $WT
cargo build --offline -q 2>/dev/null || { echo "REJECTED base build"; exit 2; }
cp target_placeholder /dev/null 2>/dev/null
BIN=$CARGO_TARGET_DIR/debug/fselect
cp $BIN /tmp/wt-confirm-base-fselect
timeout 120 bash $S/demo.sh /tmp/wt-confirm-base-fselect >/dev/null 2>&1; r0=$?
git apply $S/patch.diff 2>/dev/null || { echo "REJECTED patch does not apply"; git -C /repo worktree remove --force $WT; exit 1; }
cargo build --offline -q 2>/dev/null || { echo "REJECTED does not compile"; git -C /repo worktree remove --force $WT; exit 1; }
T=$(cargo test --offline 2>&1 | grep -E "^test result" | head -1)
timeout 120 bash $S/demo.sh $BIN >/dev/null 2>&1; r1=$?
cd /; git -C /repo worktree remove --force $WT >/dev/null 2>&1
case "$T" in *"137 passed; 0 failed"*) ;; *) echo "REJECTED tests: $T"; exit 1;; esac
if [ $r0 -eq 0 ] && [ $r1 -ne 0 ]; then echo "CONFIRMED demo base=$r0 seeded=$r1; $T"; exit 0; fi
echo "REJECTED demo base=$r0 seeded=$r1"; exit 1
