#!/bin/bash
# tools/seed_detect.sh <seed-dir> <PROP> [tier] : applies the change to /repo, runs the property's check, reverts.
# Prints: DETECTED <classes> | MISSED ; always leaves /repo clean.
set -u
S=$(realpath "$1"); P=$2; TIER=${3:-quick}
cd /verif
if ! git -C /repo diff --quiet; then echo "repo not clean"; exit 2; fi
git -C /repo apply $S/patch.diff || { echo "patch does not apply to /repo"; exit 2; }
./check $P --tier $TIER > /tmp/seed-detect.log 2>&1; rc=$?
git -C /repo checkout -- . ; git -C /repo status --short | grep -v '^??' 
if [ $rc -eq 1 ]; then echo "DETECTED rc=1 $(grep -c '^VIOLATION' /tmp/seed-detect.log) classes: $(grep '^VIOLATION' /tmp/seed-detect.log | sed 's/.*class=\([^ ]*\).*/\1/' | head -4 | tr '\n' ' ')"; 
elif [ $rc -eq 0 ]; then echo "MISSED ($(tail -1 /tmp/seed-detect.log | cut -c1-120))";
else echo "MACHINERY rc=$rc $(grep MACHINERY /tmp/seed-detect.log | head -2 | cut -c1-300)"; fi
